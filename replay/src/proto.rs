//! group `proto` (C17): bounded zoo of generated types through the REAL ProtobufWriter (growable and fixed-slice back end)
//! and ProtobufReader: identical bytes from both back ends, read back equal.  Values never contain a present default-ish
//! OPTIONAL (which proto3 cannot distinguish from absent), so plain equality is the protobuf equality of the property.
#![allow(dead_code)]
use crate::input::Input;
use asn1rs::prelude::*;

pub mod types {
    use asn1rs::prelude::*;
    asn_to_rust!(
        r"ZooProto DEFINITIONS AUTOMATIC TAGS ::=
        BEGIN
          PNums ::= SEQUENCE {
            a INTEGER (-2147483648..2147483647),
            b INTEGER (-2147483649..2147483647),
            c INTEGER (-1..4294967295),
            d INTEGER (0..4294967295),
            e INTEGER (0..4294967296),
            f INTEGER (-128..127),
            g INTEGER (0..255),
            h INTEGER (-9223372036854775808..9223372036854775807)
          }
          PSettings ::= SEQUENCE { name UTF8String OPTIONAL, level INTEGER (0..255) OPTIONAL }
          PEnvelope ::= SEQUENCE { settings PSettings, seq INTEGER (0..65535), comment UTF8String }
          PBatch ::= SEQUENCE { entries SEQUENCE OF PSettings, sealed BOOLEAN, nums SEQUENCE OF INTEGER (0..255), tail PSettings OPTIONAL, last INTEGER (0..65535) }
          PInner ::= CHOICE { x BOOLEAN, y UTF8String }
          PChoice ::= CHOICE { a INTEGER (0..255), b PInner, c NULL, e OCTET STRING }
          PEnum ::= ENUMERATED { one, two, three }
          PHolder ::= SEQUENCE { pick PChoice, kind PEnum, more SEQUENCE OF PChoice }
          PBits ::= SEQUENCE { b BIT STRING }
          PList ::= SEQUENCE OF INTEGER (0..255)
        END"
    );
}
use types::*;

fn rt<T: Readable + Writable + PartialEq + std::fmt::Debug>(v: &T) -> Result<(), String> {
    let mut growable = ProtobufWriter::default();
    growable.write(v).map_err(|e| format!("{v:?}: growable writer failed: {e:?}"))?;
    let mut backing = vec![0u8; growable.len_written()];
    let mut fixed = ProtobufWriter::from(&mut backing[..]);
    fixed.write(v).map_err(|e| format!("{v:?}: fixed-slice writer failed: {e:?}"))?;
    if growable.as_bytes() != fixed.as_bytes() {
        return Err(format!("{v:?}: back ends disagree: {:02x?} / {:02x?}", growable.as_bytes(), fixed.as_bytes()));
    }
    let mut reader = ProtobufReader::from(growable.as_bytes());
    let back = reader.read::<T>().map_err(|e| format!("{v:?}: reading back failed: {e:?} (bytes {:02x?})", growable.as_bytes()))?;
    if &back != v {
        return Err(format!("round trip changed the value: wrote {v:?}, read {back:?} (bytes {:02x?})", growable.as_bytes()));
    }
    Ok(())
}

struct Gen(u64);
impl Gen {
    fn n(&mut self, m: u64) -> u64 { self.0 = self.0.wrapping_mul(6364136223846793005).wrapping_add(1442695040888963407); (self.0 >> 33) % m.max(1) }
    fn b(&mut self) -> bool { self.n(2) == 1 }
    /// a boundary-heavy value in lo..=hi
    fn int(&mut self, lo: i128, hi: i128) -> i128 {
        let c: [i128; 20] = [lo, hi, 0, 1, -1, 127, 128, -128, -129, 255, 256, 1 << 30, -(1 << 30), (1 << 31) - 1, 1 << 31, -(1 << 31), (1 << 32) - 1, 1 << 32, 1 << 62, -(1 << 62)];
        let v = c[self.n(20) as usize];
        if v < lo || v > hi { lo + (self.n(1000) as i128) % (hi - lo + 1) } else { v }
    }
    fn settings(&mut self, allow_empty: bool) -> PSettings {
        let mut s = PSettings { name: if self.b() { Some(["x", "verbose", "ä"][self.n(3) as usize].to_string()) } else { None }, level: if self.b() { Some(1 + self.n(255) as u8) } else { None } };
        if !allow_empty && s.name.is_none() && s.level.is_none() { s.level = Some(9); }
        s
    }
    fn inner(&mut self) -> PInner { if self.b() { PInner::X(self.b()) } else { PInner::Y(["", "a", "hello"][self.n(3) as usize].to_string()) } }
    fn choice(&mut self) -> PChoice {
        match self.n(3) { 0 => PChoice::A(self.n(256) as u8), 1 => PChoice::B(self.inner()), _ => PChoice::E((0..self.n(4)).map(|k| k as u8 * 91).collect()) }
    }
}

/// v = [kind, seed]
pub fn run(i: &Input) -> Result<(), String> {
    let mut g = Gen((i.v[1] as u64).wrapping_mul(0x9E3779B97F4A7C15) ^ 0x1234567);
    match i.v[0] as u32 {
        0 => rt(&PNums {
            a: g.int(-(1 << 31), (1 << 31) - 1) as _, b: g.int(-(1 << 31) - 1, (1 << 31) - 1) as _, c: g.int(-1, (1 << 32) - 1) as _, d: g.int(0, (1 << 32) - 1) as _,
            e: g.int(0, 1 << 32) as _, f: g.int(-128, 127) as _, g: g.int(0, 255) as _, h: g.int(i64::MIN as i128, i64::MAX as i128) as _,
        }),
        1 => rt(&g.settings(true)),
        2 => rt(&PEnvelope { settings: g.settings(true), seq: 1 + g.n(65535) as u16, comment: ["c", "with content"][g.n(2) as usize].to_string() }),
        3 => rt(&PBatch { entries: (0..g.n(4)).map(|_| g.settings(true)).collect(), sealed: g.b(), nums: (0..g.n(4)).map(|_| g.n(256) as u8).collect(),
                          tail: if g.b() { Some(g.settings(false)) } else { None }, last: 1 + g.n(65535) as u16 }),
        4 => rt(&g.choice()),
        5 => rt(&[PEnum::One, PEnum::Two, PEnum::Three][g.n(3) as usize]),
        7 => {
            // BIT STRING incl. the empty one and lengths around octet boundaries
            let bits = [0u64, 1, 7, 8, 9, 15, 16, 17, 64, 100][g.n(10) as usize];
            let bytes: Vec<u8> = (0..(bits + 7) / 8).map(|k| 0xA5u8.wrapping_mul(k as u8 + 1) | 0x80).collect();
            rt(&PBits { b: BitVec::from_bytes(bytes, bits) })
        }
        _ => rt(&PHolder { pick: g.choice(), kind: [PEnum::One, PEnum::Two, PEnum::Three][g.n(3) as usize], more: (0..g.n(3)).map(|_| g.choice()).collect() }),
    }
}

/// known finding KF-C17-choice-null: a NULL alternative of a CHOICE writes no bytes at all
pub fn probe_choice_null() -> bool {
    rt(&PChoice::C(Null)).is_err()
}

/// C04 candidates in the protobuf reader (malformed input): true = panics / hangs instead of returning Ok or Err
pub fn probe_malformed(which: u32) -> bool {
    use std::sync::mpsc;
    let (tx, rx) = mpsc::channel();
    std::thread::spawn(move || {
        let r = std::panic::catch_unwind(|| match which {
            // a length-delimited field announcing 127 octets with nothing behind it
            0 => { let b = [0x0Au8, 0x7F]; let _ = ProtobufReader::from(&b[..]).read::<PSettings>(); }
            // a BIT STRING field shorter than the 8 trailing length octets
            1 => { let b = [0x0Au8, 0x02, 0xFF, 0xFF]; let _ = ProtobufReader::from(&b[..]).read::<PBits>(); }
            // a SEQUENCE OF as the root value
            _ => { let b = [0x08u8, 0x01, 0x08, 0x02]; let _ = ProtobufReader::from(&b[..]).read::<PList>(); }
        });
        let _ = tx.send(r.is_err());
    });
    match rx.recv_timeout(std::time::Duration::from_secs(3)) {
        Ok(panicked) => panicked,
        Err(_) => true, // no verdict within 3 s: hang
    }
}

// ---- group `protodec` (C04): arbitrary bytes through the real ProtobufReader for every zoo type: Ok or Err, no panic, no hang

fn decode_kind(kind: u32, b: &[u8]) {
    match kind {
        0 => { let _ = ProtobufReader::from(b).read::<PNums>(); }
        1 => { let _ = ProtobufReader::from(b).read::<PSettings>(); }
        2 => { let _ = ProtobufReader::from(b).read::<PEnvelope>(); }
        3 => { let _ = ProtobufReader::from(b).read::<PBatch>(); }
        4 => { let _ = ProtobufReader::from(b).read::<PChoice>(); }
        5 => { let _ = ProtobufReader::from(b).read::<PEnum>(); }
        6 => { let _ = ProtobufReader::from(b).read::<PHolder>(); }
        7 => { let _ = ProtobufReader::from(b).read::<PBits>(); }
        _ => { let _ = ProtobufReader::from(b).read::<PList>(); }
    }
}

/// v = [kind], b = [bytes]
pub fn run_dec(i: &Input) -> Result<(), String> {
    use std::sync::mpsc;
    let kind = i.v[0] as u32;
    let bytes = i.b[0].clone();
    let (tx, rx) = mpsc::channel();
    std::thread::spawn(move || {
        let r = std::panic::catch_unwind(|| decode_kind(kind, &bytes));
        let _ = tx.send(r.is_err());
    });
    match rx.recv_timeout(std::time::Duration::from_secs(5)) {
        Ok(false) => Ok(()),
        Ok(true) => Err("the protobuf reader panicked".into()),
        Err(_) => Err("the protobuf reader did not return within 5 s (hang)".into()),
    }
}

fn valid_bytes(g: &mut Gen, kind: u32) -> Vec<u8> {
    let mut w = ProtobufWriter::default();
    let _ = match kind {
        0 => w.write(&PNums { a: -5, b: 1 << 31, c: 7, d: 9, e: 1 << 32, f: -128, g: 255, h: -1 }),
        1 => w.write(&g.settings(true)),
        2 => w.write(&PEnvelope { settings: g.settings(true), seq: 77, comment: "comment".to_string() }),
        3 => w.write(&PBatch { entries: (0..g.n(3)).map(|_| g.settings(true)).collect(), sealed: true, nums: vec![1, 2, 3], tail: Some(g.settings(false)), last: 5 }),
        4 => w.write(&g.choice()),
        5 => w.write(&PEnum::Two),
        6 => w.write(&PHolder { pick: g.choice(), kind: PEnum::Three, more: vec![g.choice(), g.choice()] }),
        7 => w.write(&PBits { b: BitVec::from_all_bytes(vec![0xF0, 0x0F]) }),
        _ => w.write(&PList(vec![1, 2, 3])),
    };
    w.as_bytes().to_vec()
}

pub fn search_dec(seed: u64, budget: u64, try_one: &mut dyn FnMut(Input) -> bool) {
    let mut g = Gen(seed.wrapping_mul(0x9E3779B97F4A7C15) ^ 0xABCDEF);
    for k in 0..(if budget > 100_000 { 60_000 } else { budget.min(6000) }) {
        let kind = (k % 9) as u32;
        let mut bytes = if g.n(3) == 0 { (0..g.n(12)).map(|_| g.n(256) as u8).collect() } else { valid_bytes(&mut g, kind) };
        match g.n(5) {
            0 if !bytes.is_empty() => { let p = g.n(bytes.len() as u64) as usize; bytes[p] ^= 1 << g.n(8); }
            1 if !bytes.is_empty() => { let p = g.n(bytes.len() as u64) as usize; bytes.truncate(p); }
            2 if !bytes.is_empty() => { let p = g.n(bytes.len() as u64) as usize; bytes[p] = [0x7F, 0xFF, 0x80, 0x0A, 0x00][g.n(5) as usize]; }
            3 => { let p = g.n(bytes.len() as u64 + 1) as usize; bytes.insert(p, g.n(256) as u8); }
            _ => {}
        }
        if try_one(Input::new("proto_dec").v(kind).b(&bytes)) {
            return;
        }
    }
}

pub fn search(outer: u64, budget: u64, try_one: &mut dyn FnMut(Input) -> bool) {
    for seed in 0..(if budget > 100_000 { 15_000 } else { (budget / 8).min(1500) }) {
        for kind in 0..8 {
            if try_one(Input::new("proto_zoo").v(kind).v((outer - 1).wrapping_mul(1_000_003) + seed)) {
                return;
            }
        }
    }
}
