//! Naive bit-vector model (the oracle of C11) and X.691 reference encoders (C02/C10).
pub fn bits_of(bytes: &[u8]) -> Vec<bool> {
    let mut v = Vec::with_capacity(bytes.len() * 8);
    for b in bytes {
        for k in 0..8 {
            v.push(b & (0x80 >> k) != 0);
        }
    }
    v
}

pub fn bytes_of(bits: &[bool]) -> Vec<u8> {
    let mut out = vec![0u8; (bits.len() + 7) / 8];
    for (i, b) in bits.iter().enumerate() {
        if *b {
            out[i / 8] |= 0x80 >> (i % 8);
        }
    }
    out
}
