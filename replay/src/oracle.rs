//! Naive bit-vector model (the oracle of C11) and X.691 reference encoders (C02/C10).
pub fn bits_of(bytes: &[u8]) -> Vec<bool> {
    let mut v = Vec::with_capacity(bytes.len() * 8);
    for b in bytes {
        for k in 0..8 {
            v.push(b & (0x80 >> k) != 0);
        }
    }
    v
}

pub fn bytes_of(bits: &[bool]) -> Vec<u8> {
    let mut out = vec![0u8; (bits.len() + 7) / 8];
    for (i, b) in bits.iter().enumerate() {
        if *b {
            out[i / 8] |= 0x80 >> (i % 8);
        }
    }
    out
}

// ---- X.691 (08/2015) unaligned PER reference encoder, written from the standard (independent of the crate) ----

pub fn nbits(v: u64, w: usize, out: &mut Vec<bool>) {
    for i in 0..w {
        out.push((v >> (w - 1 - i)) & 1 == 1);
    }
}

pub fn width(range: u64) -> usize {
    let mut w = 0;
    let mut r = range;
    while r > 0 {
        w += 1;
        r >>= 1;
    }
    w
}

/// 11.5
pub fn cwn(lb: i64, ub: i64, v: i64, out: &mut Vec<bool>) {
    let range = (ub as i128 - lb as i128) as u64;
    nbits((v as i128 - lb as i128) as u64, width(range), out);
}

pub fn min_octets(n: u64) -> usize {
    let mut k = 1;
    let mut x = n >> 8;
    while x > 0 {
        k += 1;
        x >>= 8;
    }
    k
}

/// 11.9.3.6 / 11.9.3.7
pub fn len_short(n: u64, out: &mut Vec<bool>) {
    if n < 128 {
        out.push(false);
        nbits(n, 7, out);
    } else {
        out.push(true);
        out.push(false);
        nbits(n, 14, out);
    }
}

/// 11.9.3.5-8: header for n items; returns the number of items this header announces
pub fn len_general(n: u64, out: &mut Vec<bool>) -> u64 {
    if n < 16384 {
        len_short(n, out);
        n
    } else {
        let blocks = (n / 16384).min(4);
        out.push(true);
        out.push(true);
        nbits(blocks, 6, out);
        blocks * 16384
    }
}

/// 11.7 with offset n from the lower bound
pub fn semi(n: u64, out: &mut Vec<bool>) {
    let k = min_octets(n);
    len_short(k as u64, out);
    nbits(n, 8 * k, out);
}

/// 11.6
pub fn nsnnwn(n: u64, out: &mut Vec<bool>) {
    if n < 64 {
        out.push(false);
        nbits(n, 6, out);
    } else {
        out.push(true);
        semi(n, out);
    }
}

pub fn min_octets_2c(v: i64) -> usize {
    for k in 1..8usize {
        let lo = -(1i128 << (8 * k - 1));
        let hi = (1i128 << (8 * k - 1)) - 1;
        if (v as i128) >= lo && (v as i128) <= hi {
            return k;
        }
    }
    8
}

/// 11.8
pub fn uwn(v: i64, out: &mut Vec<bool>) {
    let k = min_octets_2c(v);
    len_short(k as u64, out);
    let bits = 8 * k;
    let pat = if bits == 64 { v as u64 } else { (v as u64) & ((1u64 << bits) - 1) };
    nbits(pat, bits, out);
}

/// 14 / 23
pub fn index(std: u64, ext: bool, idx: u64, out: &mut Vec<bool>) {
    if idx < std {
        if ext {
            out.push(false);
        }
        nbits(idx, width(std - 1), out);
    } else {
        out.push(true);
        nsnnwn(idx - std, out);
    }
}

/// 11.9.3.8 fragmentation of `items` units of `unit` bits each taken from `content`
pub fn frag(content: &[bool], unit: usize, out: &mut Vec<bool>) {
    let mut rest = content;
    loop {
        let n = (rest.len() / unit) as u64;
        let a = len_general(n, out) as usize;
        out.extend_from_slice(&rest[..a * unit]);
        rest = &rest[a * unit..];
        if n < 16384 {
            break;
        }
    }
}

/// 16 / 17 with SIZE(lb..ub[,...]) inside the conformance profile (no bounds, or ub < 64K); unit = 8 (octets) or 1 (bits)
pub fn sized(lb: Option<u64>, ub: Option<u64>, ext: bool, content: &[bool], unit: usize, out: &mut Vec<bool>) {
    let n = (content.len() / unit) as u64;
    let l = lb.unwrap_or(0);
    let u = ub.unwrap_or(i64::MAX as u64);
    let outside = n < l || n > u;
    if ext {
        out.push(outside);
    }
    if outside {
        frag(content, unit, out);
    } else if u == 0 && unit == 8 {
    } else if lb.is_some() && lb == ub && u < 65536 {
        out.extend_from_slice(content);
    } else if lb.is_none() && ub.is_none() {
        frag(content, unit, out);
    } else {
        nbits(n - l, width(u - l), out);
        out.extend_from_slice(content);
    }
}
