//! Two versions of one schema for the C05 probes (V2 = V1 + extension additions).
#![allow(dead_code)]
pub mod v1 {
    use asn1rs::prelude::*;
    asn_to_rust!(
        r"VersionsA DEFINITIONS AUTOMATIC TAGS ::=
        BEGIN
          Msg ::= SEQUENCE {
            a INTEGER (0..255),
            ...,
            b OCTET STRING OPTIONAL
          }
          Tail ::= INTEGER (0..65535)
        END"
    );
}
pub mod v2 {
    use asn1rs::prelude::*;
    asn_to_rust!(
        r"VersionsB DEFINITIONS AUTOMATIC TAGS ::=
        BEGIN
          Msg ::= SEQUENCE {
            a INTEGER (0..255),
            ...,
            b OCTET STRING OPTIONAL,
            c INTEGER (0..255) OPTIONAL
          }
          Tail ::= INTEGER (0..65535)
        END"
    );
}

pub mod nullseq {
    use asn1rs::prelude::*;
    asn_to_rust!(
        r"NullSeq DEFINITIONS AUTOMATIC TAGS ::=
        BEGIN
          Msg ::= SEQUENCE {
            a NULL,
            b INTEGER (0..255),
            ...,
            c INTEGER (0..255) OPTIONAL
          }
        END"
    );
}

pub mod kf {
    use asn1rs::prelude::*;
    asn_to_rust!(
        r"KfTypes DEFINITIONS AUTOMATIC TAGS ::=
        BEGIN
          BigList ::= SEQUENCE OF BOOLEAN
          BigStr ::= IA5String
          DefAdd ::= SEQUENCE { a BOOLEAN, ..., d INTEGER (0..255) DEFAULT 5 }
          BigAdd ::= SEQUENCE { a BOOLEAN, ..., o OCTET STRING OPTIONAL }
        END"
    );
}
