//! Executable form of the C11 contract on the public bit-level API, checked against the naive model.
use crate::input::Input;
use crate::oracle::*;
use crate::Rng;
use asn1rs::protocol::per::unaligned::buffer::{BitBuffer, Bits};
use asn1rs::protocol::per::unaligned::{BitRead, BitWrite, ScopedBitRead};

pub fn run(i: &Input) -> Result<(), String> {
    match i.case.as_str() {
        // write n bits of b[0] from offset v[0] into b[1] at position v[1]; n = v[2]
        "bits_slice_write" => {
            let (src, mut dst) = (i.b[0].clone(), i.b[1].clone());
            let (off, mut pos, n) = (i.u(0), i.u(1), i.u(2));
            let before = bits_of(&dst);
            let sbits = bits_of(&src);
            let pos0 = pos;
            let r = BitWrite::write_bits_with_offset_len(&mut (&mut dst[..], &mut pos), &src, off, n);
            let fits = off + n <= sbits.len() && pos0 + n <= before.len();
            let after = bits_of(&dst);
            match r {
                Ok(()) => {
                    if !fits {
                        return Err("Ok although source or destination is too short".into());
                    }
                    if pos != pos0 + n {
                        return Err(format!("cursor {} != {}", pos, pos0 + n));
                    }
                    for j in 0..before.len() {
                        let want = if j >= pos0 && j < pos0 + n { sbits[off + j - pos0] } else { before[j] };
                        if after[j] != want {
                            return Err(format!("destination bit {j} is {} but the model says {want}; dst after = {:02x?}", after[j], dst));
                        }
                    }
                }
                Err(_) => {
                    if fits {
                        return Err("Err although source and destination are long enough".into());
                    }
                    if pos != pos0 || after != before {
                        return Err("Err changed cursor or destination".into());
                    }
                }
            }
            Ok(())
        }
        // read n bits from b[0] at position v[0] into b[1] at offset v[1]; n = v[2]; v[3] = visible length (Bits) or -1 (raw slice)
        "bits_slice_read" => {
            let (src, mut dst) = (i.b[0].clone(), i.b[1].clone());
            let (pos0, off, n) = (i.u(0), i.u(1), i.u(2));
            let limit = if i.v[3] < 0 { src.len() * 8 } else { i.u(3).min(src.len() * 8) };
            // Bits::set_pos clamps to the visible length (its contract); the raw slice needs pos <= 8*len (pre-condition)
            let pos0 = pos0.min(limit);
            let before = bits_of(&dst);
            let sbits = bits_of(&src);
            let (r, pos) = if i.v[3] < 0 {
                let mut pos = pos0;
                let r = BitRead::read_bits_with_offset_len(&mut (&src[..], &mut pos), &mut dst, off, n);
                (r, pos)
            } else {
                let mut bits = Bits::from((&src[..], limit));
                bits.set_pos(pos0);
                let r = bits.read_bits_with_offset_len(&mut dst, off, n);
                if bits.pos() > bits.len() {
                    return Err(format!("pos {} beyond len {}", bits.pos(), bits.len()));
                }
                let _ = bits.remaining();
                (r, bits.pos())
            };
            let fits = pos0 + n <= limit && off + n <= before.len();
            let after = bits_of(&dst);
            match r {
                Ok(()) => {
                    if !fits {
                        return Err("Ok although source (visible length) or destination is too short".into());
                    }
                    if pos != pos0 + n {
                        return Err(format!("cursor {} != {}", pos, pos0 + n));
                    }
                    for j in 0..before.len() {
                        let want = if j >= off && j < off + n { sbits[pos0 + j - off] } else { before[j] };
                        if after[j] != want {
                            return Err(format!("destination bit {j} is {} but the model says {want}", after[j]));
                        }
                    }
                }
                Err(_) => {
                    if fits {
                        return Err("Err although enough bits are visible and the destination is long enough".into());
                    }
                    if pos != pos0 || after != before {
                        return Err("Err changed cursor or destination".into());
                    }
                }
            }
            Ok(())
        }
        // single-bit read at position v[0] of b[0]; v[1] = visible length or -1 for the raw slice
        "bits_read_bit" => {
            let src = i.b[0].clone();
            let sbits = bits_of(&src);
            let limit = if i.v[1] < 0 { src.len() * 8 } else { i.u(1).min(src.len() * 8) };
            let pos0 = i.u(0).min(limit);
            let (r, pos) = if i.v[1] < 0 {
                let mut pos = pos0;
                let r = BitRead::read_bit(&mut (&src[..], &mut pos));
                (r, pos)
            } else {
                let mut bits = Bits::from((&src[..], limit));
                bits.set_pos(pos0);
                let r = bits.read_bit();
                let _ = bits.remaining();
                (r, bits.pos())
            };
            match r {
                Ok(b) => {
                    if pos0 >= limit {
                        return Err("read_bit Ok at the end".into());
                    }
                    if b != sbits[pos0] || pos != pos0 + 1 {
                        return Err("read_bit value or cursor wrong".into());
                    }
                }
                Err(_) => {
                    if pos0 < limit {
                        return Err("read_bit Err before the end".into());
                    }
                    if pos != pos0 {
                        return Err("failed read_bit moved the cursor".into());
                    }
                }
            }
            Ok(())
        }
        // single-bit write of v[1] at position v[0] into b[0]
        "bits_write_bit" => {
            let mut dst = i.b[0].clone();
            let before = bits_of(&dst);
            let mut pos = i.u(0).min(dst.len() * 8);
            let pos0 = pos;
            let bit = i.v[1] & 1 == 1;
            let r = BitWrite::write_bit(&mut (&mut dst[..], &mut pos), bit);
            let after = bits_of(&dst);
            match r {
                Ok(()) => {
                    if pos0 >= before.len() || pos != pos0 + 1 {
                        return Err("write_bit Ok at the end or cursor wrong".into());
                    }
                    for j in 0..before.len() {
                        if after[j] != (if j == pos0 { bit } else { before[j] }) {
                            return Err(format!("write_bit changed bit {j} wrongly"));
                        }
                    }
                }
                Err(_) => {
                    if pos0 < before.len() || pos != pos0 || after != before {
                        return Err("write_bit Err before the end, or Err with side effect".into());
                    }
                }
            }
            Ok(())
        }
        // history of operations on a growable BitBuffer against Vec<bool>; ops encoded in v: (op, a, b) triples, data from b[0]
        "bits_history" => {
            let data = &i.b[0];
            let dbits = bits_of(data);
            let mut model: Vec<bool> = Vec::new();
            let mut rp = 0usize;
            let mut buf = BitBuffer::default();
            for t in i.v.chunks(3) {
                let (op, a, b) = (t[0], t[1] as usize, t[2] as usize);
                match op {
                    0 => {
                        buf.write_bit(a & 1 == 1).map_err(|e| format!("write_bit failed {e:?}"))?;
                        model.push(a & 1 == 1);
                    }
                    1 => {
                        let r = buf.write_bits_with_offset_len(data, a, b);
                        if a + b <= dbits.len() {
                            r.map_err(|e| format!("write failed {e:?}"))?;
                            model.extend_from_slice(&dbits[a..a + b]);
                        } else if r.is_ok() {
                            return Err("write Ok although source too short".into());
                        }
                    }
                    2 => {
                        let r = buf.read_bit();
                        if rp < model.len() {
                            if r.map_err(|e| format!("read_bit failed {e:?}"))? != model[rp] {
                                return Err(format!("read_bit at {rp} differs from model"));
                            }
                            rp += 1;
                        } else if r.is_ok() {
                            return Err("read_bit Ok at end".into());
                        }
                    }
                    3 => {
                        let n = a % 70;
                        let off = b % 8;
                        let mut dst = vec![0xA5u8; (off + n + 7) / 8 + 1];
                        let before = bits_of(&dst);
                        let r = buf.read_bits_with_offset_len(&mut dst, off, n);
                        let after = bits_of(&dst);
                        if rp + n <= model.len() {
                            r.map_err(|e| format!("read failed {e:?}"))?;
                            for j in 0..before.len() {
                                let want = if j >= off && j < off + n { model[rp + j - off] } else { before[j] };
                                if after[j] != want {
                                    return Err(format!("read bit {j} differs from model"));
                                }
                            }
                            rp += n;
                        } else if r.is_ok() {
                            return Err("read Ok beyond written bits".into());
                        } else if after != before {
                            return Err("failed read changed destination".into());
                        }
                    }
                    _ => {}
                }
                if buf.bit_len() != model.len() {
                    return Err(format!("bit_len {} != model {}", buf.bit_len(), model.len()));
                }
                if buf.byte_len() != (model.len() + 7) / 8 {
                    return Err(format!("byte_len {} != ceil({}/8)", buf.byte_len(), model.len()));
                }
                let got = bits_of(buf.content());
                if got[..model.len()] != model[..] {
                    return Err("content differs from model".into());
                }
                if got[model.len()..].iter().any(|b| *b) {
                    return Err("padding bits not zero".into());
                }
            }
            Ok(())
        }
        other => Err(format!("unknown case {other}")),
    }
}

pub fn search(rng: &mut Rng, budget: u64, try_one: &mut dyn FnMut(Input) -> bool) {
    // boundary families: every alignment class src%8 x dst%8 x len, two fill patterns
    let lens: Vec<usize> = (0..=41).chain([47, 48, 49, 63, 64, 65].into_iter()).collect();
    for fill in [0u8, 0xFF] {
        for so in 0..8usize {
            for dp in 0..8usize {
                for &n in &lens {
                    let src: Vec<u8> = (0..12).map(|k| if fill == 0 { 0xFF } else { (k as u8).wrapping_mul(37) ^ 0x5A }).collect();
                    let dst = vec![fill; 12];
                    if try_one(Input::new("bits_slice_write").v(so as i128).v(dp as i128).v(n as i128).b(&src).b(&dst)) {
                        return;
                    }
                    if try_one(Input::new("bits_slice_read").v(so as i128).v(dp as i128).v(n as i128).v(-1).b(&src).b(&dst)) {
                        return;
                    }
                    for limit in [so + n, (so + n).saturating_sub(1), 96] {
                        if try_one(Input::new("bits_slice_read").v(so as i128).v(dp as i128).v(n as i128).v(limit.min(96) as i128).b(&src).b(&dst)) {
                            return;
                        }
                    }
                }
            }
        }
    }
    // end-of-slice classes
    for len in 0..4usize {
        for pos in 0..=(len * 8) {
            for fill in [0x00u8, 0xFF, 0xA5] {
                let d = vec![fill; len];
                if try_one(Input::new("bits_read_bit").v(pos as i128).v(-1).b(&d)) {
                    return;
                }
                for lim in 0..=(len * 8) {
                    if try_one(Input::new("bits_read_bit").v(pos as i128).v(lim as i128).b(&d)) {
                        return;
                    }
                }
                if try_one(Input::new("bits_write_bit").v(pos as i128).v(0).b(&d)) {
                    return;
                }
                if try_one(Input::new("bits_write_bit").v(pos as i128).v(1).b(&d)) {
                    return;
                }
            }
        }
        for pos in 0..=(len * 8 + 1) {
            for n in 0..=18usize {
                let src = vec![0xC3u8; 3];
                let dst = vec![0x3Cu8; len];
                if try_one(Input::new("bits_slice_write").v(0).v(pos as i128).v(n as i128).b(&src).b(&dst)) {
                    return;
                }
                if try_one(Input::new("bits_slice_read").v(pos as i128).v(0).v(n as i128).v(-1).b(&dst).b(&src)) {
                    return;
                }
                if try_one(Input::new("bits_slice_read").v(pos.min(len * 8) as i128).v(0).v(n as i128).v((len * 8) as i128).b(&dst).b(&src)) {
                    return;
                }
            }
        }
    }
    // random
    let mut k = 0u64;
    while k < budget {
        k += 1;
        let sl = 1 + rng.below(64) as usize;
        let dl = 1 + rng.below(64) as usize;
        let src = rng.bytes(sl);
        let dst = rng.bytes(dl);
        let off = rng.below((sl * 8 + 2) as u64) as usize;
        let pos = rng.below((dl * 8 + 2) as u64) as usize;
        let n = rng.below(((sl.min(dl)) * 8 + 4) as u64) as usize;
        let case = if k % 3 == 0 { "bits_slice_read" } else { "bits_slice_write" };
        let mut i = Input::new(case).v(off as i128).v(pos as i128).v(n as i128);
        if case == "bits_slice_read" {
            let lim = if k % 2 == 0 { -1 } else { rng.below((sl * 8 + 1) as u64) as i128 };
            let off2 = if lim >= 0 { (off as i128).min(lim) } else { off as i128 };
            i = Input::new(case).v(off2).v(pos as i128).v(n as i128).v(lim);
        }
        if try_one(i.b(&src).b(&dst)) {
            return;
        }
        if k % 5 == 0 {
            let data = rng.bytes(24);
            let mut h = Input::new("bits_history");
            for _ in 0..(1 + rng.below(12)) {
                h = h.v(rng.below(4) as i128).v(rng.below(200) as i128).v(rng.below(70) as i128);
            }
            if try_one(h.b(&data)) {
                return;
            }
        }
    }
}
