//! Bounded stand-ins for front-end code that is outside the reach of both verifiers (iterator / String code):
//!   group `resolve` (C12): the property statement itself, executed on the real parser + resolver for a bounded family of
//!                          module graphs: resolve(module with references) == resolve(module with the literals), for every
//!                          placement of the declarations, every decoy module and every load order; unresolved / non-integer -> Err.
//!   group `inttext` (C15): the generated *_min()/*_max() accessor text returns the declared bounds (boundary grid of the property).
use crate::input::Input;
use asn1rs::model::asn::MultiModuleResolver;
use asn1rs::model::parse::Tokenizer;
use asn1rs::model::Model;

const NAMES: [&str; 6] = ["vLo", "vHi", "szLo", "szHi", "fixN", "defV"];

const INT_RANGES: [(i64, i64); 5] = [(0, 255), (-5, 1000), (0, i64::MAX), (7, 7), (-128, 127)];
const SIZE_RANGES: [(i64, i64); 4] = [(1, 64), (16, 16), (0, i64::MAX), (0, 3)];
const FIXES: [i64; 2] = [2, 16];

fn user_module(vals: &[String; 6], import: Option<&str>, local_decls: bool) -> String {
    // `vals` are either the literals or the reference names
    let mut s = String::from("Messages DEFINITIONS AUTOMATIC TAGS ::= BEGIN\n");
    if let Some(imp) = import {
        if let Some(raw) = imp.strip_prefix('@') {
            s += raw; // a complete IMPORTS clause
        } else {
            s += &format!("IMPORTS {} FROM {};\n", NAMES.join(", "), imp);
        }
    }
    if local_decls {
        s += "@DECLS@\n";
    }
    s += &format!("A ::= INTEGER ({}..{})\n", vals[0], vals[1]);
    s += &format!("B ::= OCTET STRING (SIZE({}..{}))\n", vals[2], vals[3]);
    s += &format!(
        "C ::= SEQUENCE {{ x UTF8String (SIZE({})), y INTEGER (0..255) DEFAULT {}, z SEQUENCE (SIZE({}..{})) OF BOOLEAN, w BIT STRING (SIZE({}..{})), v IA5String (SIZE({}..{})) }}\n",
        vals[4], vals[5], vals[2], vals[3], vals[2], vals[3], vals[2], vals[3]
    );
    s += "END";
    s
}

fn decls(values: &[i64; 6]) -> String {
    NAMES.iter().zip(values).map(|(n, v)| format!("{n} INTEGER ::= {v}\n")).collect()
}

fn definitions_of(models: Vec<Model<asn1rs::model::asn::Asn>>, name: &str) -> Option<String> {
    models.into_iter().find(|m| m.name == name).map(|m| format!("{:#?}", m.definitions))
}

fn resolve_all(texts: &[String]) -> Result<Vec<Model<asn1rs::model::asn::Asn>>, String> {
    let mut r = MultiModuleResolver::default();
    for t in texts {
        r.push(Model::try_from(Tokenizer::default().parse(t)).map_err(|e| format!("parse error: {e:?}"))?);
    }
    r.try_resolve_all().map_err(|e| format!("{e:?}"))
}

/// v = [placement, decoy, order, int_range, size_range, fix]
pub fn run_resolve(i: &Input) -> Result<(), String> {
    let (placement, decoy, order) = (i.v[0] as usize, i.v[1] as usize, i.v[2] as usize);
    let (lo, hi) = INT_RANGES[i.v[3] as usize];
    let (slo, shi) = SIZE_RANGES[i.v[4] as usize];
    let fix = FIXES[i.v[5] as usize];
    let values = [lo, hi, slo, shi, fix, 12];
    let lits: [String; 6] = values.map(|v| v.to_string());
    let refs: [String; 6] = NAMES.map(|n| n.to_string());
    // the reference: every reference textually replaced by its literal
    let want = definitions_of(resolve_all(&[user_module(&lits, None, false)])?, "Messages").ok_or("no model")?;

    const OID_S: &str = "{ iso(1) org(3) limits(7) }";
    const OID_U: &str = "{ iso(1) org(3) other(9) }";
    // placement of the declarations
    let (user, sibling): (String, Option<String>) = match placement {
        0 => (user_module(&refs, None, true).replace("@DECLS@", &decls(&values)), None),
        1 => (user_module(&refs, Some("Limits"), false), Some(format!("Limits DEFINITIONS AUTOMATIC TAGS ::= BEGIN\n{}END", decls(&values)))),
        2 => (user_module(&refs, Some(&format!("Limits {OID_S}")), false), Some(format!("Limits {OID_S} DEFINITIONS AUTOMATIC TAGS ::= BEGIN\n{}END", decls(&values)))),
        3 => (user_module(&refs, Some("Limits"), false), Some(format!("Limits {OID_S} DEFINITIONS AUTOMATIC TAGS ::= BEGIN\n{}END", decls(&values)))),
        // declarations missing altogether: must be a resolve error
        4 => (user_module(&refs, Some("Limits"), false), None),
        // a chain of imports: Messages imports from Middle, Middle imports from Limits (two hops)
        6 => (user_module(&refs, Some("Middle"), false),
              Some(format!("Limits DEFINITIONS AUTOMATIC TAGS ::= BEGIN\n{}END\u{1}Middle DEFINITIONS AUTOMATIC TAGS ::= BEGIN\nIMPORTS {} FROM Limits;\nEND", decls(&values), NAMES.join(", ")))),
        // two import clauses whose symbols differ only in case: the types VLo, VHi, ... from Types (first), the values vLo, vHi, ... from Limits
        7 => {
            let types: Vec<String> = NAMES.iter().map(|n| { let mut c = n.chars(); c.next().map(|f| f.to_ascii_uppercase().to_string() + c.as_str()).unwrap_or_default() }).collect();
            (user_module(&refs, Some(&format!("@IMPORTS {} FROM Types\n {} FROM Limits;\n", types.join(", "), NAMES.join(", "))), false),
             Some(format!("Limits DEFINITIONS AUTOMATIC TAGS ::= BEGIN\n{}END\u{1}Types DEFINITIONS AUTOMATIC TAGS ::= BEGIN\n{}END", decls(&values),
                          types.iter().map(|t| format!("{t} ::= BOOLEAN\n")).collect::<String>())))
        }
        // a non-integer where an integer is needed
        _ => (user_module(&refs, None, true).replace("@DECLS@", &decls(&values).replace(&format!("vHi INTEGER ::= {hi}"), "vHi UTF8String ::= \"abc\"")), None),
    };
    // decoy: an unrelated module that declares the same names with other values
    let other = [1, 3, 1, 7, 2, 1];
    let decoy_text = match decoy {
        0 => None,
        1 => Some(format!("Unrelated DEFINITIONS AUTOMATIC TAGS ::= BEGIN\n{}END", decls(&other))),
        _ => Some(format!("Unrelated {OID_U} DEFINITIONS AUTOMATIC TAGS ::= BEGIN\n{}END", decls(&other))),
    };
    let mut texts: Vec<String> = vec![user];
    // a sibling entry may hold several modules separated by \u{1}
    texts.extend(sibling.iter().flat_map(|t| t.split('\u{1}').map(|x| x.to_string())));
    texts.extend(decoy_text);
    // load order: rotate / reverse
    let n = texts.len();
    match order % 6 {
        0 => {}
        1 => texts.reverse(),
        2 => texts.rotate_left(1 % n),
        3 => texts.rotate_left(2 % n),
        4 => { texts.rotate_left(1 % n); texts.reverse(); }
        _ => { texts.rotate_left(2 % n); texts.reverse(); }
    }
    let got = resolve_all(&texts);
    if placement == 4 || placement == 5 {
        return match got {
            Err(_) => Ok(()),
            Ok(m) => Err(format!("{} resolved without an error: {}", if placement == 4 { "a reference to a module that is not loaded" } else { "a non-integer value used as INTEGER bound" },
                                 definitions_of(m, "Messages").unwrap_or_default().chars().take(300).collect::<String>())),
        };
    }
    let got = definitions_of(got.map_err(|e| format!("resolving the module with references failed: {e}"))?, "Messages").ok_or("no model")?;
    if got != want {
        let diff = got.lines().zip(want.lines()).find(|(a, b)| a != b).map(|(a, b)| format!("with references `{}` / with literals `{}`", a.trim(), b.trim())).unwrap_or_default();
        return Err(format!("the module with references resolves differently from the module with literals: {diff}"));
    }
    Ok(())
}

pub fn search_resolve(try_one: &mut dyn FnMut(Input) -> bool) {
    for placement in 0..8 {
        for decoy in 0..3 {
            for order in 0..6 {
                for ir in 0..INT_RANGES.len() {
                    for sr in 0..SIZE_RANGES.len() {
                        for fx in 0..FIXES.len() {
                            // keep the product small: vary the value grid fully only for one order, the orders fully for one value tuple
                            if order != 0 && !(ir == 1 && sr == 0 && fx == 1) && !(ir == 3 && sr == 1 && fx == 0) {
                                continue;
                            }
                            if try_one(Input::new("front_resolve").v(placement).v(decoy).v(order).v(ir as i64).v(sr as i64).v(fx as i64)) {
                                return;
                            }
                        }
                    }
                }
            }
        }
    }
}

// ------------------------------------------------------------------------------------------------ C15: accessor text

/// boundary grid of the property: {0, +-1, +-2^k, +-2^k +-1 : k <= 63} U small ints
pub fn grid() -> Vec<i64> {
    let mut g: Vec<i128> = vec![0, 1, -1, 2, -2, 3, 5, 7, 10, 100, 127, 128, 129, 200, 255, 256, 300, 999, 1000, -7, -10, -100, -127, -128, -129, -999, -1000, -100000];
    for k in 1..=63u32 {
        let p = 1i128 << k;
        for d in [-1i128, 0, 1] {
            g.push(p + d);
            g.push(-p + d);
        }
    }
    let mut g: Vec<i64> = g.into_iter().filter(|v| *v >= i64::MIN as i128 && *v <= i64::MAX as i128).map(|v| v as i64).collect();
    g.sort();
    g.dedup();
    g
}

/// v = [min, max, form]: the generated accessors of `V ::= INTEGER (min..max)` return min and max
/// form 0: (min..max); 1: (min..max, ...); 2: (min..MAX, ...) -- only the lower bound is declared
pub fn run_inttext(i: &Input) -> Result<(), String> {
    use asn1rs::model::generate::rust::RustCodeGenerator;
    use asn1rs::model::generate::Generator;
    let (min, mut max) = (i.v[0] as i64, i.v[1] as i64);
    let form = i.v.get(2).copied().unwrap_or(0);
    let range = match form { 0 => format!("{min}..{max}"), 1 => format!("{min}..{max}, ..."), _ => { max = i64::MAX; format!("{min}..MAX, ...") } };
    let text = format!("M DEFINITIONS AUTOMATIC TAGS ::= BEGIN V ::= INTEGER ({range}) S ::= SEQUENCE {{ f INTEGER ({range}) }} END");
    let model = Model::try_from(Tokenizer::default().parse(&text)).map_err(|e| format!("{e:?}"))?.try_resolve().map_err(|e| format!("{e:?}"))?.to_rust();
    let mut gen = RustCodeGenerator::default();
    gen.add_model(model);
    let files = gen.to_string().map_err(|e| format!("{e:?}"))?;
    let code: String = files.into_iter().map(|(_, c)| c).collect();
    let mut seen = 0;
    for (fname, want) in [("value_min", min), ("value_max", max), ("f_min", min), ("f_max", max)] {
        let pat = format!("fn {fname}()");
        let Some(p) = code.find(&pat) else { continue };
        let rest = &code[p..];
        let (Some(a), Some(b)) = (rest.find('{'), rest.find('}')) else { return Err(format!("{fname}: no body")) };
        let raw: String = rest[a + 1..b].chars().filter(|c| !c.is_whitespace()).collect();
        // a Rust integer literal starts with a digit (after an optional minus); `_` may only follow a digit
        let unsigned = raw.strip_prefix('-').unwrap_or(&raw);
        if !unsigned.starts_with(|c: char| c.is_ascii_digit()) {
            return Err(format!("INTEGER ({min}..{max}): generated {fname}() has the body `{raw}` which is not an integer literal"));
        }
        let body: String = raw.chars().filter(|c| *c != '_').collect();
        // strip a type suffix like i8 / u64
        let digits_end = body.char_indices().skip(1).find(|(_, c)| !c.is_ascii_digit()).map(|(k, _)| k).unwrap_or(body.len());
        let (num, suffix) = body.split_at(digits_end);
        if !suffix.is_empty() && !["i8", "i16", "i32", "i64", "u8", "u16", "u32", "u64"].contains(&suffix) {
            return Err(format!("INTEGER ({min}..{max}): generated {fname}() has the body `{}` which is not an integer literal", &rest[a + 1..b].trim()));
        }
        match num.parse::<i128>() {
            Ok(v) if v == want as i128 => seen += 1,
            Ok(v) => return Err(format!("INTEGER ({min}..{max}): generated {fname}() returns {v}, declared bound is {want}")),
            Err(_) => return Err(format!("INTEGER ({min}..{max}): generated {fname}() has the body `{}` which is not an integer literal", &rest[a + 1..b].trim())),
        }
    }
    if seen == 0 {
        // no accessor generated for this range (e.g. full-width types): nothing to compare
    }
    Ok(())
}

pub fn search_inttext(try_one: &mut dyn FnMut(Input) -> bool) {
    let g = grid();
    // extensible ranges and ranges with an open upper bound (lower bound >= 0: an absent / negative-open lower bound is KF-C15-min)
    for a in g.iter().filter(|a| **a >= 0) {
        for form in [1i128, 2] {
            let b = a.saturating_add(1000);
            if try_one(Input::new("front_inttext").v(*a).v(b).v(form)) {
                return;
            }
        }
    }
    // every bound of the grid as min (with a fixed larger max) and as max (with a fixed smaller min), plus neighbours
    for (k, a) in g.iter().enumerate() {
        for b in [g.get(k + 1), g.get(k + 7), g.last()].into_iter().flatten() {
            if a < b && try_one(Input::new("front_inttext").v(*a).v(*b)) {
                return;
            }
        }
        for b in [g.first(), k.checked_sub(5).and_then(|j| g.get(j))].into_iter().flatten() {
            if b < a && try_one(Input::new("front_inttext").v(*b).v(*a)) {
                return;
            }
        }
    }
}
