//! Group `decode`: ARBITRARY (random, truncated, bit-flipped) input through every method of the real `Reader for UperReader`.
//!
//! Executable contract (C04): the decoder returns Ok or Err, never panics; the cursor stays inside the input; a decoded value is not
//! larger than the input can justify (its payload bits were actually read).  `outcome()` additionally renders the complete observable
//! result (value or error kind, bits remaining) so that two builds of the real crate (feature descriptive-deserialize-errors off / on)
//! can be compared input by input (C19).
use crate::input::Input;
use crate::Rng;
use asn1rs::descriptor::numbers::Integer;
use asn1rs::descriptor::*;
use asn1rs::model::asn::Tag;
use asn1rs::prelude::*;
use asn1rs::protocol::per::Error;

/// size constraint LO..=HI (negative = absent), EXT = extensible
pub struct Sz<const LO: i64, const HI: i64, const EXT: bool>;
impl<const LO: i64, const HI: i64, const EXT: bool> common::Constraint for Sz<LO, HI, EXT> {
    const TAG: Tag = Tag::DEFAULT_OCTET_STRING;
}
macro_rules! sz_impl {
    ($($m:ident),*) => { $(
        impl<const LO: i64, const HI: i64, const EXT: bool> $m::Constraint for Sz<LO, HI, EXT> {
            const MIN: Option<u64> = if LO < 0 { None } else { Some(LO as u64) };
            const MAX: Option<u64> = if HI < 0 { None } else { Some(HI as u64) };
            const EXTENSIBLE: bool = EXT;
        }
    )* };
}
sz_impl!(octetstring, bitstring, utf8string, ia5string, numericstring, printablestring, visiblestring, sequenceof);

/// integer constraint
pub struct Nc<const LO: i64, const HI: i64, const HAS_LO: bool, const HAS_HI: bool, const EXT: bool>;
impl<const LO: i64, const HI: i64, const A: bool, const B: bool, const EXT: bool> common::Constraint for Nc<LO, HI, A, B, EXT> {
    const TAG: Tag = Tag::DEFAULT_INTEGER;
}
macro_rules! nc_impl {
    ($($t:ty),*) => { $(
        impl<const LO: i64, const HI: i64, const A: bool, const B: bool, const EXT: bool> numbers::Constraint<$t> for Nc<LO, HI, A, B, EXT> {
            const MIN: Option<i64> = if A { Some(LO) } else { None };
            const MAX: Option<i64> = if B { Some(HI) } else { None };
            const MIN_T: Option<$t> = if A { Some(LO as $t) } else { None };
            const MAX_T: Option<$t> = if B { Some(HI as $t) } else { None };
            const EXTENSIBLE: bool = EXT;
        }
    )* };
}
nc_impl!(u8, u16, u32, u64, i8, i16, i32, i64);

#[derive(Debug, PartialEq)]
pub struct En<const N: u64, const STD: u64, const EXT: bool>(u64);
impl<const N: u64, const STD: u64, const EXT: bool> common::Constraint for En<N, STD, EXT> {
    const TAG: Tag = Tag::DEFAULT_ENUMERATED;
}
impl<const N: u64, const STD: u64, const EXT: bool> enumerated::Constraint for En<N, STD, EXT> {
    const NAME: &'static str = "En";
    const VARIANT_COUNT: u64 = N;
    const STD_VARIANT_COUNT: u64 = STD;
    const EXTENSIBLE: bool = EXT;
    fn to_choice_index(&self) -> u64 {
        self.0
    }
    fn from_choice_index(index: u64) -> Option<Self> {
        if index < N { Some(En(index)) } else { None }
    }
}

#[derive(Debug, PartialEq)]
pub enum ChV {
    A(u8),
    B(Vec<u8>),
    C(bool),
    D(i64),
}
#[derive(Debug, PartialEq)]
pub struct Ch<const N: u64, const STD: u64, const EXT: bool>(ChV);
impl<const N: u64, const STD: u64, const EXT: bool> common::Constraint for Ch<N, STD, EXT> {
    const TAG: Tag = Tag::DEFAULT_SEQUENCE;
}
impl<const N: u64, const STD: u64, const EXT: bool> choice::Constraint for Ch<N, STD, EXT> {
    const NAME: &'static str = "Ch";
    const VARIANT_COUNT: u64 = N;
    const STD_VARIANT_COUNT: u64 = STD;
    const EXTENSIBLE: bool = EXT;
    fn to_choice_index(&self) -> u64 {
        match self.0 { ChV::A(_) => 0, ChV::B(_) => 1, ChV::C(_) => 2, ChV::D(_) => 3 }
    }
    fn write_content<W: Writer>(&self, w: &mut W) -> Result<(), W::Error> {
        match &self.0 {
            ChV::A(v) => w.write_number::<u8, Nc<0, 255, true, true, false>>(*v),
            ChV::B(v) => w.write_octet_string::<Sz<-1, -1, false>>(v),
            ChV::C(v) => w.write_boolean::<boolean::NoConstraint>(*v),
            ChV::D(v) => w.write_number::<i64, Nc<0, 0, false, false, false>>(*v),
        }
    }
    fn read_content<R: Reader>(index: u64, r: &mut R) -> Result<Option<Self>, R::Error> {
        Ok(match index {
            0 if N > 0 => Some(Ch(ChV::A(r.read_number::<u8, Nc<0, 255, true, true, false>>()?))),
            1 if N > 1 => Some(Ch(ChV::B(r.read_octet_string::<Sz<-1, -1, false>>()?))),
            2 if N > 2 => Some(Ch(ChV::C(r.read_boolean::<boolean::NoConstraint>()?))),
            3 if N > 3 => Some(Ch(ChV::D(r.read_number::<i64, Nc<0, 0, false, false, false>>()?))),
            _ => None,
        })
    }
}

pub struct DefOct;
impl common::Constraint for DefOct {
    const TAG: Tag = Tag::DEFAULT_OCTET_STRING;
}
impl default::Constraint for DefOct {
    type Owned = Vec<u8>;
    type Borrowed = [u8];
    const DEFAULT_VALUE: &'static [u8] = &[1, 2, 3];
}

type R<'a> = UperReader<Bits<'a>>;
type Oct<C> = OctetString<C>;

/// (rendered value, payload bits that value must have consumed at least)
type Dec = Result<(String, usize), Error>;

fn ok<T: std::fmt::Debug>(v: T, bits: usize) -> Dec {
    let s = format!("{v:?}");
    // keep the lines short but collision free enough: length + prefix + a cheap hash
    let h = s.bytes().fold(0xcbf29ce484222325u64, |h, b| (h ^ b as u64).wrapping_mul(0x100000001b3));
    Ok((format!("len{} {:.40} #{h:016x}", s.len(), s), bits))
}

macro_rules! with_sz {
    ($c:expr, $f:ident, $r:expr) => {
        match $c % 9 {
            0 => $f::<Sz<-1, -1, false>>($r),
            1 => $f::<Sz<0, 3, false>>($r),
            2 => $f::<Sz<2, 2, false>>($r),
            3 => $f::<Sz<1, 300, false>>($r),
            4 => $f::<Sz<0, 70000, false>>($r),
            5 => $f::<Sz<1, 4, true>>($r),
            6 => $f::<Sz<3, 3, true>>($r),
            7 => $f::<Sz<5, -1, false>>($r),
            _ => $f::<Sz<0, 65535, false>>($r),
        }
    };
}

fn d_oct<C: octetstring::Constraint>(r: &mut R) -> Dec { r.read_octet_string::<C>().and_then(|v| { let n = v.len() * 8; ok(v, n) }) }
fn d_bit<C: bitstring::Constraint>(r: &mut R) -> Dec { r.read_bit_string::<C>().and_then(|v| { let n = v.1 as usize; ok(v, n) }) }
fn d_utf8<C: utf8string::Constraint>(r: &mut R) -> Dec { r.read_utf8string::<C>().and_then(|v| { let n = v.len() * 8; ok(v, n) }) }
fn d_ia5<C: ia5string::Constraint>(r: &mut R) -> Dec { r.read_ia5string::<C>().and_then(|v| { let n = v.len() * 7; ok(v, n) }) }
fn d_num<C: numericstring::Constraint>(r: &mut R) -> Dec { r.read_numeric_string::<C>().and_then(|v| { let n = v.len() * 4; ok(v, n) }) }
fn d_prt<C: printablestring::Constraint>(r: &mut R) -> Dec { r.read_printable_string::<C>().and_then(|v| { let n = v.len() * 7; ok(v, n) }) }
fn d_vis<C: visiblestring::Constraint>(r: &mut R) -> Dec { r.read_visible_string::<C>().and_then(|v| { let n = v.len() * 7; ok(v, n) }) }
fn d_seqof_u8<C: sequenceof::Constraint>(r: &mut R) -> Dec {
    r.read_sequence_of::<C, Integer<u8, Nc<0, 255, true, true, false>>>().and_then(|v| { let n = v.len() * 8; ok(v, n) })
}
fn d_seqof_oct<C: sequenceof::Constraint>(r: &mut R) -> Dec {
    r.read_sequence_of::<C, Oct<Sz<-1, -1, false>>>().and_then(|v| { let n = v.iter().map(|x| 8 + x.len() * 8).sum(); ok(v, n) })
}
fn d_setof_bool<C: setof::Constraint>(r: &mut R) -> Dec {
    r.read_set_of::<C, Boolean>().and_then(|v| { let n = v.len(); ok(v, n) })
}

fn d_number(c: u64, r: &mut R) -> Dec {
    match c % 10 {
        0 => r.read_number::<u8, Nc<0, 255, true, true, false>>().and_then(|v| ok(v, 8)),
        1 => r.read_number::<i64, Nc<0, 0, false, false, false>>().and_then(|v| ok(v, 16)),
        2 => r.read_number::<u64, Nc<0, 0, true, false, false>>().and_then(|v| ok(v, 16)),
        3 => r.read_number::<i64, Nc<-5, 5, true, true, true>>().and_then(|v| ok(v, 5)),
        4 => r.read_number::<i8, Nc<-128, 127, true, true, false>>().and_then(|v| ok(v, 8)),
        5 => r.read_number::<u16, Nc<7, 7, true, true, false>>().and_then(|v| ok(v, 0)),
        6 => r.read_number::<u32, Nc<0, 4294967295, true, true, false>>().and_then(|v| ok(v, 32)),
        7 => r.read_number::<i64, Nc<{ i64::MIN }, { i64::MAX }, true, true, false>>().and_then(|v| ok(v, 16)),
        8 => r.read_number::<i32, Nc<0, 100000, true, true, true>>().and_then(|v| ok(v, 1)),
        _ => r.read_number::<u64, Nc<0, { i64::MAX }, true, true, false>>().and_then(|v| ok(v, 16)),
    }
}
fn d_enum(c: u64, r: &mut R) -> Dec {
    match c % 5 {
        0 => r.read_enumerated::<En<1, 1, false>>().and_then(|v| ok(v, 0)),
        1 => r.read_enumerated::<En<3, 3, false>>().and_then(|v| ok(v, 2)),
        2 => r.read_enumerated::<En<5, 3, true>>().and_then(|v| ok(v, 3)),
        3 => r.read_enumerated::<En<300, 300, false>>().and_then(|v| ok(v, 9)),
        _ => r.read_enumerated::<En<70, 2, true>>().and_then(|v| ok(v, 2)),
    }
}
fn d_choice(c: u64, r: &mut R) -> Dec {
    match c % 4 {
        0 => r.read_choice::<Ch<1, 1, false>>().and_then(|v| ok(v, 8)),
        1 => r.read_choice::<Ch<4, 4, false>>().and_then(|v| ok(v, 3)),
        2 => r.read_choice::<Ch<4, 2, true>>().and_then(|v| ok(v, 3)),
        _ => r.read_choice::<Ch<3, 1, true>>().and_then(|v| ok(v, 2)),
    }
}
fn d_seq(c: u64, r: &mut R) -> Dec {
    // SEQUENCE { a u8, b OCTET STRING OPTIONAL, c DEFAULT, ..., d OCTET STRING OPTIONAL, e SEQUENCE OF u8 OPTIONAL }
    type S1 = crate::seq::Shape<2, 5, 2>;
    type S2 = crate::seq::Shape<1, 2, -1>;
    type S3 = crate::seq::Shape<0, 3, 0>;
    match c % 3 {
        0 => r
            .read_sequence::<S1, _, _>(|r| {
                let a = r.read_number::<u8, Nc<0, 255, true, true, false>>()?;
                let b = r.read_opt::<Oct<Sz<-1, -1, false>>>()?;
                let c = r.read_default::<DefOct, Oct<Sz<0, 3, false>>>()?;
                let d = r.read_opt::<Oct<Sz<-1, -1, false>>>()?;
                let e = r.read_opt::<SequenceOf<Integer<u8, Nc<0, 255, true, true, false>>, Sz<-1, -1, false>>>()?;
                Ok((a, b, c, d, e))
            })
            .and_then(|v| ok(v, 8)),
        1 => r
            .read_sequence::<S2, _, _>(|r| {
                let a = r.read_opt::<Boolean>()?;
                let b = r.read_sequence::<S3, _, _>(|r| {
                    let x = r.read_null::<null::NoConstraint>()?;
                    let y = r.read_opt::<Integer<u8, Nc<0, 255, true, true, false>>>()?;
                    let z = r.read_opt::<Utf8String>()?;
                    Ok((x, y, z))
                })?;
                Ok((a, b))
            })
            .and_then(|v| ok(v, 1)),
        _ => r
            .read_set::<crate::seq::Shape<1, 2, -1>, _, _>(|r| {
                let a = r.read_boolean::<boolean::NoConstraint>()?;
                let b = r.read_opt::<Oct<Sz<1, 4, true>>>()?;
                Ok((a, b))
            })
            .and_then(|v| ok(v, 2)),
    }
}
pub const KINDS: u64 = 15;

fn decode(kind: u64, c: u64, r: &mut R) -> Dec {
    match kind {
        0 => with_sz!(c, d_oct, r),
        1 => with_sz!(c, d_bit, r),
        2 => with_sz!(c, d_utf8, r),
        3 => with_sz!(c, d_ia5, r),
        4 => with_sz!(c, d_num, r),
        5 => with_sz!(c, d_prt, r),
        6 => with_sz!(c, d_vis, r),
        7 => with_sz!(c, d_seqof_u8, r),
        8 => with_sz!(c, d_seqof_oct, r),
        9 => with_sz!(c, d_setof_bool, r),
        10 => d_number(c, r),
        11 => d_enum(c, r),
        12 => d_choice(c, r),
        13 => d_seq(c, r),
        _ => r.read_opt::<Oct<Sz<0, 3, false>>>().and_then(|v| ok(v, 0)),
    }
}

/// the complete observable outcome of one decode (C19 compares this line between the two builds)
pub fn outcome(i: &Input) -> String {
    let (kind, c, bit_len) = (i.v[0] as u64, i.v[1] as u64, i.v[2] as usize);
    let bytes = &i.b[0];
    let mut r: R = UperReader::from((&bytes[..], bit_len.min(bytes.len() * 8)));
    let d = decode(kind, c, &mut r);
    let rem = r.bits_remaining();
    match d {
        Ok((s, _)) => format!("Ok {s} rem={rem}"),
        Err(e) => {
            // the error kind with its data, without the (multi-line, build dependent) backtrace payload
            let k = format!("{:?}", e.kind());
            let k = k.split("Backtrace").next().unwrap_or("").split("backtrace").next().unwrap_or("").replace('\n', " ");
            format!("Err {:.80} rem={rem}", k.split_whitespace().collect::<Vec<_>>().join(" "))
        }
    }
}

pub fn run(i: &Input) -> Result<(), String> {
    let (kind, c, bit_len) = (i.v[0] as u64, i.v[1] as u64, i.v[2] as usize);
    let bytes = &i.b[0];
    let total = bit_len.min(bytes.len() * 8);
    let mut r: R = UperReader::from((&bytes[..], total));
    let d = decode(kind, c, &mut r); // a panic is caught by run_case and reported
    let rem = r.bits_remaining();
    if rem > total {
        return Err(format!("cursor left the input: {rem} bits remaining of {total}"));
    }
    if let Ok((s, payload_bits)) = d {
        if payload_bits > total - rem {
            return Err(format!("decoded {s} needs at least {payload_bits} payload bits but only {} bits were consumed of {total}", total - rem));
        }
    }
    Ok(())
}

fn valid_encoding(rng: &mut Rng, kind: u64, c: u64) -> Vec<u8> {
    // something the matching decoder accepts (or nearly): produced by the real writer from a random value
    let mut w = UperWriter::default();
    let n = match rng.below(8) { 0 => 0, 1 => 1, 2 => 2, 3 => 3, 4 => 4, 5 => 127 + rng.below(3), 6 => 300, _ => rng.below(20) } as usize;
    let data = rng.bytes(n);
    let _ = match kind {
        0 | 8 | 14 => w.write_octet_string::<Sz<-1, -1, false>>(&data),
        1 => w.write_bit_string::<Sz<-1, -1, false>>(&data, (n * 8) as u64),
        2..=6 => w.write_utf8string::<Sz<-1, -1, false>>(&"0123456789 ".repeat(n / 8 + 1)[..n.min(11)]),
        7 | 9 => w.write_sequence_of::<Sz<-1, -1, false>, Integer<u8, Nc<0, 255, true, true, false>>>(&data),
        10 => w.write_number::<i64, Nc<0, 0, false, false, false>>(rng.next() as i64 >> rng.below(64)),
        11 => w.write_enumerated(&En::<5, 3, true>(rng.below(5))),
        12 => w.write_choice(&Ch::<4, 2, true>(match rng.below(4) { 0 => ChV::A(7), 1 => ChV::B(data.clone()), 2 => ChV::C(true), _ => ChV::D(-77) })),
        _ => w.write_sequence::<crate::seq::Shape<2, 5, 2>, _>(|w| {
            w.write_number::<u8, Nc<0, 255, true, true, false>>(9)?;
            w.write_opt::<Oct<Sz<-1, -1, false>>>(if c % 2 == 0 { Some(&data) } else { None })?;
            w.write_default::<DefOct, Oct<Sz<0, 3, false>>>(&vec![1, 2])?;
            w.write_opt::<Oct<Sz<-1, -1, false>>>(Some(&data))?;
            w.write_opt::<SequenceOf<Integer<u8, Nc<0, 255, true, true, false>>, Sz<-1, -1, false>>>(None)
        }),
    };
    w.into_bytes_vec()
}

pub fn make(rng: &mut Rng, k: u64) -> Input {
    let kind = k % KINDS;
    let c = rng.below(90);
    let mut bytes = match rng.below(4) {
        0 => {
            // raw random bytes with a biased head (length determinants, fragment headers, extension bits)
            let n = rng.below(24) as usize;
            let mut b = rng.bytes(n);
            let heads = [0x00u8, 0x01, 0x7f, 0x80, 0x81, 0xbf, 0xc0, 0xc1, 0xc4, 0xc5, 0xff, 0x40, 0x3f];
            if n > 0 && rng.below(2) == 0 { b[0] = heads[rng.below(heads.len() as u64) as usize]; }
            if n > 1 && rng.below(3) == 0 { b[1] = heads[rng.below(heads.len() as u64) as usize]; }
            b
        }
        _ => valid_encoding(rng, kind, c),
    };
    match rng.below(4) {
        0 if !bytes.is_empty() => {
            let bit = rng.below(bytes.len() as u64 * 8) as usize;
            bytes[bit / 8] ^= 0x80 >> (bit % 8);
        }
        1 if !bytes.is_empty() => {
            // prepend a shift: unaligned content
            let carry = rng.below(256) as u8;
            bytes.insert(0, carry);
        }
        _ => {}
    }
    let total = bytes.len() * 8;
    let bit_len = if rng.below(3) == 0 { rng.below(total as u64 + 1) as usize } else { total };
    Input::new("dec_any").v(kind).v(c).v(bit_len as u64).b(&bytes)
}

pub fn search(rng: &mut Rng, budget: u64, try_one: &mut dyn FnMut(Input) -> bool) {
    for k in 0..budget {
        if try_one(make(rng, k)) {
            return;
        }
    }
}
