//! Executable form of the C10 / C06 / C02 contracts on the public PackedRead / PackedWrite API of BitBuffer,
//! against the X.691 reference encoder of oracle.rs.
use crate::input::Input;
use crate::oracle as x;
use crate::oracle::{bits_of, bytes_of};
use crate::Rng;
use asn1rs::protocol::per::unaligned::buffer::BitBuffer;
use asn1rs::protocol::per::unaligned::BitWrite;
use asn1rs::protocol::per::{PackedRead, PackedWrite};

fn opt(v: i128) -> Option<u64> {
    if v < 0 { None } else { Some(v as u64) }
}

/// compare what the writer produced (after a 3-bit prefix) with the expected bits; returns the buffer for reading back
fn check_bits(buf: &BitBuffer, prefix: usize, want: &[bool]) -> Result<(), String> {
    let got = bits_of(buf.content());
    if buf.bit_len() != prefix + want.len() {
        return Err(format!("{} bits written, X.691 says {}", buf.bit_len() - prefix, want.len()));
    }
    if got[prefix..prefix + want.len()] != want[..] {
        let at = (0..want.len()).find(|i| got[prefix + i] != want[*i]).unwrap();
        return Err(format!("bit {at} differs from the X.691 pattern; got {:02x?} want {:02x?}", bytes_of(&got[prefix..prefix + want.len()]), bytes_of(want)));
    }
    if buf.byte_len() != (buf.bit_len() + 7) / 8 || got[buf.bit_len()..].iter().any(|b| *b) {
        return Err("buffer not tight / padding not zero".into());
    }
    Ok(())
}

fn start() -> BitBuffer {
    let mut b = BitBuffer::default();
    b.write_bits_with_offset(&[0b101], 5).unwrap(); // unaligned start: 3 bits
    b
}

fn reader(b: &BitBuffer) -> BitBuffer {
    BitBuffer::from_bits_with_position(b.content().to_vec(), b.bit_len(), 3)
}

fn pos_of(b: &BitBuffer) -> usize {
    // read position is not public: count the remaining bits
    let mut c = BitBuffer::from_bits_with_position(b.content().to_vec(), b.bit_len(), 0);
    let _ = &mut c;
    0
}

pub fn run(i: &Input) -> Result<(), String> {
    let _ = pos_of;
    let mut w = start();
    let mut want = Vec::new();
    match i.case.as_str() {
        "per_cwn" => {
            let (lb, ub, v) = (i.v[0] as i64, i.v[1] as i64, i.v[2] as i64);
            let r = w.write_constrained_whole_number(lb, ub, v);
            let ok = lb <= v && v <= ub;
            if r.is_ok() != ok {
                return Err(format!("write result {:?} but admissible = {ok}", r.is_ok()));
            }
            if !ok {
                return if w.bit_len() == 3 { Ok(()) } else { Err("rejected value left bits behind".into()) };
            }
            x::cwn(lb, ub, v, &mut want);
            check_bits(&w, 3, &want)?;
            let mut rd = reader(&w);
            let back = rd.read_constrained_whole_number(lb, ub).map_err(|e| format!("read failed: {e:?}"))?;
            if back != v {
                return Err(format!("read back {back}"));
            }
            tail_ok(&mut rd)
        }
        "per_semi" => {
            let (lb, v) = (i.v[0] as i64, i.v[1] as i64);
            let r = w.write_semi_constrained_whole_number(lb, v);
            if r.is_ok() != (v >= lb) {
                return Err("admissibility".into());
            }
            if v < lb {
                return Ok(());
            }
            x::semi((v as i128 - lb as i128) as u64, &mut want);
            check_bits(&w, 3, &want)?;
            let mut rd = reader(&w);
            let back = rd.read_semi_constrained_whole_number(lb).map_err(|e| format!("read failed: {e:?}"))?;
            if back != v {
                return Err(format!("read back {back}"));
            }
            tail_ok(&mut rd)
        }
        "per_uwn" => {
            let v = i.v[0] as i64;
            w.write_unconstrained_whole_number(v).map_err(|e| format!("{e:?}"))?;
            x::uwn(v, &mut want);
            check_bits(&w, 3, &want)?;
            let mut rd = reader(&w);
            let back = rd.read_unconstrained_whole_number().map_err(|e| format!("read failed: {e:?}"))?;
            if back != v {
                return Err(format!("read back {back}"));
            }
            tail_ok(&mut rd)
        }
        "per_nsnnwn" => {
            let v = i.v[0] as u64;
            w.write_normally_small_non_negative_whole_number(v).map_err(|e| format!("{e:?}"))?;
            x::nsnnwn(v, &mut want);
            check_bits(&w, 3, &want)?;
            let mut rd = reader(&w);
            let back = rd.read_normally_small_non_negative_whole_number().map_err(|e| format!("read failed: {e:?}"))?;
            if back != v {
                return Err(format!("read back {back}"));
            }
            tail_ok(&mut rd)
        }
        "per_len" => {
            let (lb, ub, n) = (opt(i.v[0]), opt(i.v[1]), i.v[2] as u64);
            let r = w.write_length_determinant(lb, ub, n);
            let (l, u) = (lb.unwrap_or(0), ub.unwrap_or(i64::MAX as u64));
            let bounded = lb.is_some() || ub.is_some();
            let ok = !bounded || (l <= n && n <= u);
            if r.is_ok() != ok {
                return Err(format!("write result {:?} but admissible = {ok}", r.is_ok()));
            }
            if !ok {
                return if w.bit_len() == 3 { Ok(()) } else { Err("rejected length left bits behind".into()) };
            }
            let announced;
            if !bounded {
                announced = x::len_general(n, &mut want);
                if r.unwrap() != if n >= 16384 { Some(announced) } else { None } {
                    return Err("fragment size returned".into());
                }
            } else if u < 65536 {
                x::nbits(n - l, x::width(u - l), &mut want);
                announced = n;
            } else {
                // outside the conformance profile: only the round trip is checked
                let mut rd = reader(&w);
                let back = rd.read_length_determinant(lb, ub).map_err(|e| format!("read failed: {e:?}"))?;
                return if back == n { tail_ok(&mut rd) } else { Err(format!("read back {back}")) };
            }
            check_bits(&w, 3, &want)?;
            let mut rd = reader(&w);
            let back = rd.read_length_determinant(lb, ub).map_err(|e| format!("read failed: {e:?}"))?;
            if back != announced {
                return Err(format!("read back {back}, announced {announced}"));
            }
            tail_ok(&mut rd)
        }
        "per_index" => {
            let (std, ext, idx) = (i.v[0] as u64, i.v[1] != 0, i.v[2] as u64);
            let r = if i.v[3] != 0 { w.write_choice_index(std, ext, idx) } else { w.write_enumeration_index(std, ext, idx) };
            let ok = ext || idx < std;
            if r.is_ok() != ok {
                return Err("admissibility".into());
            }
            if !ok {
                return if w.bit_len() == 3 { Ok(()) } else { Err("rejected index left bits behind".into()) };
            }
            x::index(std, ext, idx, &mut want);
            check_bits(&w, 3, &want)?;
            let mut rd = reader(&w);
            let back = if i.v[3] != 0 { rd.read_choice_index(std, ext) } else { rd.read_enumeration_index(std, ext) }.map_err(|e| format!("read failed: {e:?}"))?;
            if back != idx {
                return Err(format!("read back {back}"));
            }
            tail_ok(&mut rd)
        }
        // octet string of v[3] octets (pattern from seed v[4]) with SIZE(v[0]..v[1]) (negative = absent), extensible v[2]
        "per_octets" | "per_bits" => {
            let (lb, ub, ext) = (opt(i.v[0]), opt(i.v[1]), i.v[2] != 0);
            let n = i.v[3] as usize;
            let seed = i.v[4] as u64;
            let is_bits = i.case == "per_bits";
            let nbytes = if is_bits { (n + 7) / 8 } else { n };
            let data: Vec<u8> = (0..nbytes).map(|k| ((k as u64).wrapping_mul(seed | 1).wrapping_add(seed >> 3) >> 2) as u8).collect();
            let r = if is_bits { w.write_bitstring(lb, ub, ext, &data, 0, n as u64) } else { w.write_octetstring(lb, ub, ext, &data) };
            let (l, u) = (lb.unwrap_or(0), ub.unwrap_or(i64::MAX as u64));
            let inside = l <= n as u64 && n as u64 <= u;
            if r.is_ok() != (ext || inside) {
                return Err(format!("write result {:?} but admissible = {}", r.is_ok(), ext || inside));
            }
            if r.is_err() {
                return if w.bit_len() == 3 { Ok(()) } else { Err("rejected size left bits behind".into()) };
            }
            let in_profile = (lb.is_none() && ub.is_none()) || (ub.is_some() && u < 65536);
            let content: Vec<bool> = if is_bits { bits_of(&data)[..n].to_vec() } else { bits_of(&data) };
            if in_profile || !inside {
                x::sized(lb, ub, ext, &content, if is_bits { 1 } else { 8 }, &mut want);
                check_bits(&w, 3, &want)?;
            }
            w.write_bits(&[0xA5]).unwrap(); // sentinel behind the value
            let mut rd = reader(&w);
            if is_bits {
                let (v, len) = rd.read_bitstring(lb, ub, ext).map_err(|e| format!("read failed: {e:?}"))?;
                if len != n as u64 || bits_of(&v)[..n] != content[..] {
                    return Err(format!("read back {} bits / different content", len));
                }
            } else {
                let v = rd.read_octetstring(lb, ub, ext).map_err(|e| format!("read failed: {e:?}"))?;
                if v != data {
                    return Err(format!("read back {} octets / different content", v.len()));
                }
            }
            let mut s = [0u8; 1];
            rd.read_bits(&mut s).map_err(|_| "sentinel not readable".to_string())?;
            if s != [0xA5] {
                return Err("reader did not end at the end of the value (sentinel differs)".into());
            }
            tail_ok(&mut rd)
        }
        other => Err(format!("unknown case {other}")),
    }
}

use asn1rs::protocol::per::unaligned::BitRead;
fn tail_ok(rd: &mut BitBuffer) -> Result<(), String> {
    if rd.read_bit().is_ok() {
        Err("reader consumed fewer bits than were written".into())
    } else {
        Ok(())
    }
}

const EDGES: [i128; 34] = [
    0, 1, 2, 3, 4, 5, 7, 8, 15, 16, 62, 63, 64, 65, 126, 127, 128, 129, 254, 255, 256, 257, 16382, 16383, 16384, 16385, 32767, 32768, 65534, 65535,
    65536, 65537, 1 << 31, 1 << 32,
];

pub fn search(rng: &mut Rng, budget: u64, try_one: &mut dyn FnMut(Input) -> bool) {
    let mut ints: Vec<i128> = EDGES.to_vec();
    for k in [23u32, 24, 31, 32, 39, 40, 47, 48, 55, 56, 62, 63] {
        ints.push((1i128 << k) - 1);
        ints.push(1i128 << k);
        ints.push((1i128 << k) + 1);
    }
    let signed: Vec<i128> = ints.iter().flat_map(|v| [*v, -*v, -*v - 1]).filter(|v| *v >= i64::MIN as i128 && *v <= i64::MAX as i128).collect();
    // unconstrained / semi / normally small
    for &v in &signed {
        if try_one(Input::new("per_uwn").v(v)) { return; }
        for lb in [0i128, 1, -1, -40, 40, i64::MIN as i128, i64::MAX as i128 - 3] {
            if try_one(Input::new("per_semi").v(lb).v(v)) { return; }
        }
    }
    for &v in &ints {
        if v >= 0 && v <= u64::MAX as i128 {
            if try_one(Input::new("per_nsnnwn").v(v)) { return; }
        }
    }
    // constrained whole numbers: exhaustive small ranges, boundary ranges
    for lb in -3i128..=3 {
        for w in 0i128..=40 {
            for v in (lb - 1)..=(lb + w + 1) {
                if try_one(Input::new("per_cwn").v(lb).v(lb + w).v(v)) { return; }
            }
        }
    }
    for &r in &ints {
        for lb in [0i128, -1, 5, i64::MIN as i128] {
            let ub = lb + r;
            if ub > i64::MAX as i128 { continue; }
            for v in [lb, lb + 1, ub - 1, ub, lb - 1, ub + 1, lb + r / 2] {
                if v < i64::MIN as i128 || v > i64::MAX as i128 { continue; }
                if try_one(Input::new("per_cwn").v(lb).v(ub).v(v)) { return; }
            }
        }
    }
    // lengths
    for &n in &ints {
        if n > u64::MAX as i128 / 2 { continue; }
        if try_one(Input::new("per_len").v(-1).v(-1).v(n)) { return; }
        for (lb, ub) in [(0i128, 10i128), (1, 1), (0, 127), (0, 128), (3, 65535), (0, 65536), (1, 70000), (70000, 70000), (5, -1), (-1, 300)] {
            if try_one(Input::new("per_len").v(lb).v(ub).v(n)) { return; }
        }
    }
    for n in [256i128 * 16384, 257 * 16384, 1 << 40] {
        if try_one(Input::new("per_len").v(-1).v(-1).v(n)) { return; }
    }
    // indices
    for std in [1i128, 2, 3, 4, 5, 8, 9, 63, 64, 65, 128, 256, 257] {
        for idx in 0..(std + 70).min(400) {
            for ext in [0i128, 1] {
                for ch in [0i128, 1] {
                    if try_one(Input::new("per_index").v(std).v(ext).v(idx).v(ch)) { return; }
                }
            }
        }
        for idx in [std + 127, std + 128, std + 255, std + 256, std + 65535, std + 65536] {
            if try_one(Input::new("per_index").v(std).v(1).v(idx).v(0)) { return; }
        }
    }
    // strings: every fragment-count class
    let lens: [i128; 30] = [0, 1, 2, 3, 127, 128, 129, 16383, 16384, 16385, 20000, 32767, 32768, 32769, 49152, 49153, 65535, 65536, 65537, 70000, 81919, 81920, 81921, 98304,
        100000, 114688, 131072, 131073, 200000, 212992];
    for &n in &lens {
        for case in ["per_octets", "per_bits"] {
            if try_one(Input::new(case).v(-1).v(-1).v(0).v(n).v(7)) { return; }
            if try_one(Input::new(case).v(0).v(40000).v(0).v(n).v(9)) { return; }
            if try_one(Input::new(case).v(2).v(5).v(1).v(n).v(11)) { return; }
            if try_one(Input::new(case).v(n).v(n).v(0).v(n).v(13)) { return; }
            if try_one(Input::new(case).v(-1).v(100).v(0).v(n).v(15)) { return; }
        }
    }
    for n in 0i128..40 {
        for case in ["per_octets", "per_bits"] {
            for (lb, ub, ext) in [(-1i128, -1i128, 0i128), (0, 20, 0), (0, 20, 1), (3, 3, 0), (3, 3, 1), (0, 0, 0), (0, 0, 1), (5, -1, 0), (0, 70000, 0)] {
                if try_one(Input::new(case).v(lb).v(ub).v(ext).v(n).v(21 + n)) { return; }
            }
        }
    }
    // random
    let mut k = 0;
    while k < budget {
        k += 1;
        let a = rng.next() as i64;
        let b = rng.next() as i64;
        let (lb, ub) = if a <= b { (a, b) } else { (b, a) };
        let span = (ub as i128 - lb as i128) as u128;
        let v = (lb as i128 + (rng.next() as u128 % (span + 1)) as i128) as i64;
        if try_one(Input::new("per_cwn").v(lb).v(ub).v(v)) { return; }
        let sh = rng.below(64) as u32;
        if try_one(Input::new("per_uwn").v((rng.next() as i64) >> sh)) { return; }
        if try_one(Input::new("per_nsnnwn").v(rng.next() >> sh)) { return; }
        if try_one(Input::new("per_semi").v((rng.next() as i64) >> rng.below(64) as u32).v(i64::MAX >> sh)) { return; }
        if k % 50 == 0 {
            let n = rng.below(140000) as i128;
            let case = if k % 100 == 0 { "per_octets" } else { "per_bits" };
            if try_one(Input::new(case).v(-1).v(-1).v((k % 3 == 0) as i128).v(n).v(rng.below(1000) as i128)) { return; }
        }
    }
}
