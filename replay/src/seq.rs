//! Executable form of the C03 / C05 contracts on the REAL UperWriter / UperReader, driven through the public Writer /
//! Reader API with dynamically chosen SEQUENCE shapes (const-generic Constraint instantiations), against an
//! X.691 reference encoding of the preamble, the addition header and the open types.
use crate::input::Input;
use crate::oracle as x;
use crate::oracle::{bits_of, bytes_of};
use crate::Rng;
use asn1rs::descriptor::numbers::Integer;
use asn1rs::descriptor::{common, default, numbers, sequence, Reader, Writer};
use asn1rs::model::asn::Tag;
use asn1rs::prelude::*;

pub struct Shape<const K: u64, const N: u64, const E: i64>;
impl<const K: u64, const N: u64, const E: i64> common::Constraint for Shape<K, N, E> {
    const TAG: Tag = Tag::DEFAULT_SEQUENCE;
}
impl<const K: u64, const N: u64, const E: i64> sequence::Constraint for Shape<K, N, E> {
    const NAME: &'static str = "Shape";
    const STD_OPTIONAL_FIELDS: u64 = K;
    const FIELD_COUNT: u64 = N;
    const EXTENDED_AFTER_FIELD: Option<u64> = if E < 0 { None } else { Some(E as u64) };
    fn read_seq<R: Reader>(_reader: &mut R) -> Result<Self, R::Error> {
        unreachable!()
    }
    fn write_seq<W: Writer>(&self, _writer: &mut W) -> Result<(), W::Error> {
        unreachable!()
    }
}
pub struct U8C;
impl common::Constraint for U8C {
    const TAG: Tag = Tag::DEFAULT_INTEGER;
}
impl numbers::Constraint<u8> for U8C {
    const MIN: Option<i64> = Some(0);
    const MAX: Option<i64> = Some(255);
    const MIN_T: Option<u8> = Some(0);
    const MAX_T: Option<u8> = Some(255);
}
pub struct DefC;
impl common::Constraint for DefC {
    const TAG: Tag = Tag::DEFAULT_INTEGER;
}
impl default::Constraint for DefC {
    type Owned = u8;
    type Borrowed = u8;
    const DEFAULT_VALUE: &'static u8 = &42;
}
type Num = Integer<u8, U8C>;

/// kinds: 0 mandatory, 1 OPTIONAL, 2 DEFAULT 42
fn write_fields<W: Writer>(w: &mut W, kinds: &[u8], vals: &[Option<u8>]) -> Result<(), W::Error> {
    for (k, v) in kinds.iter().zip(vals) {
        match k {
            0 => w.write_number::<u8, U8C>(v.unwrap())?,
            1 => w.write_opt::<Num>(v.as_ref())?,
            _ => w.write_default::<DefC, Num>(&v.unwrap_or(42))?,
        }
    }
    Ok(())
}
fn read_fields<R: Reader>(r: &mut R, kinds: &[u8]) -> Result<Vec<Option<u8>>, R::Error> {
    let mut out = Vec::new();
    for k in kinds {
        out.push(match k {
            0 => Some(r.read_number::<u8, U8C>()?),
            1 => r.read_opt::<Num>()?,
            _ => Some(r.read_default::<DefC, Num>()?),
        });
    }
    Ok(out)
}

macro_rules! dispatch {
    ($k:expr, $n:expr, $e:expr, $f:ident, $($arg:expr),*) => {{
        macro_rules! arm_e { ($K:literal, $N:literal) => { match $e {
            -1 => $f::<Shape<$K, $N, -1>>($($arg),*), 0 => $f::<Shape<$K, $N, 0>>($($arg),*), 1 => $f::<Shape<$K, $N, 1>>($($arg),*),
            2 => $f::<Shape<$K, $N, 2>>($($arg),*), 3 => $f::<Shape<$K, $N, 3>>($($arg),*), _ => panic!("shape e") } } }
        macro_rules! arm_n { ($K:literal) => { match $n { 1 => arm_e!($K, 1), 2 => arm_e!($K, 2), 3 => arm_e!($K, 3), 4 => arm_e!($K, 4), 5 => arm_e!($K, 5), _ => panic!("shape n") } } }
        match $k { 0 => arm_n!(0), 1 => arm_n!(1), 2 => arm_n!(2), 3 => arm_n!(3), 4 => arm_n!(4), _ => panic!("shape k") }
    }};
}

fn do_write<C: sequence::Constraint>(w: &mut UperWriter, kinds: &[u8], vals: &[Option<u8>]) -> Result<(), asn1rs::protocol::per::Error> {
    w.write_sequence::<C, _>(|w| write_fields(w, kinds, vals))
}
fn do_read<C: sequence::Constraint>(r: &mut UperReader<Bits<'_>>, kinds: &[u8]) -> Result<Vec<Option<u8>>, asn1rs::protocol::per::Error> {
    r.read_sequence::<C, _, _>(|r| read_fields(r, kinds))
}

/// number of OPTIONAL/DEFAULT components among the root components (index <= e, or all without marker)
fn root_opts(kinds: &[u8], e: i64) -> u64 {
    kinds.iter().enumerate().filter(|(i, k)| (e < 0 || *i as i64 <= e) && **k != 0).count() as u64
}

/// X.691 19: the complete expected encoding (8-bit components; additions as open types of one octet)
fn reference(kinds: &[u8], e: i64, vals: &[Option<u8>]) -> Vec<bool> {
    let n = kinds.len();
    let root_end = if e < 0 { n } else { (e as usize + 1).min(n) };
    let present = |i: usize| match kinds[i] {
        0 => true,
        1 => vals[i].is_some(),
        _ => vals[i].map(|v| v != 42).unwrap_or(false),
    };
    let mut out = Vec::new();
    let any_add = (root_end..n).any(present);
    if e >= 0 {
        out.push(any_add);
    }
    for i in 0..root_end {
        if kinds[i] != 0 {
            out.push(present(i));
        }
    }
    for i in 0..root_end {
        if present(i) {
            x::nbits(vals[i].unwrap() as u64, 8, &mut out);
        }
    }
    if any_add {
        let m = n - root_end;
        x::nsnnwn(m as u64 - 1, &mut out);
        for i in root_end..n {
            out.push(present(i));
        }
        for i in root_end..n {
            if present(i) {
                x::nbits(1, 8, &mut out); // open type: length 1
                x::nbits(vals[i].unwrap() as u64, 8, &mut out);
            }
        }
    }
    out
}

/// Input: v = [e, n, n_reader, kinds.., vals.. (-1 absent)]; the reader knows the first n_reader components
pub fn run(i: &Input) -> Result<(), String> {
    let e = i.v[0] as i64;
    let n = i.v[1] as usize;
    let n_r = i.v[2] as usize;
    let nmax = n.max(n_r);
    let kinds: Vec<u8> = i.v[3..3 + nmax].iter().map(|k| *k as u8).collect();
    let vals: Vec<Option<u8>> = i.v[3 + nmax..3 + nmax + n].iter().map(|v| if *v < 0 { None } else { Some(*v as u8) }).collect();
    let (kw, kr) = (&kinds[..n], &kinds[..n_r]);
    let root_end = if e < 0 { n } else { (e as usize + 1).min(n) };
    let present = |i: usize| match kw[i] {
        0 => true,
        1 => vals[i].is_some(),
        _ => vals[i].map(|v| v != 42).unwrap_or(false),
    };
    let inconsistent = root_end < n && !present(root_end) && (root_end + 1..n).any(present);
    let mut w = UperWriter::default();
    w.write_bit_field_entry(true, true).unwrap(); // one leading bit: unaligned start
    let r = dispatch!(root_opts(kw, e), n, e, do_write, &mut w, kw, &vals);
    match r {
        Err(err) => {
            if !inconsistent {
                return Err(format!("encoder refused a consistent value: {err:?}"));
            }
            if !matches!(err.kind(), asn1rs::protocol::per::ErrorKind::ExtensionFieldsInconsistent(_)) {
                return Err(format!("wrong error for the inconsistent pattern: {err:?}"));
            }
            return Ok(());
        }
        Ok(()) => {
            if inconsistent {
                return Err("encoder accepted first addition absent + later present".into());
            }
        }
    }
    let want = reference(kw, e, &vals);
    let got = bits_of(w.byte_content());
    if w.bit_len() != 1 + want.len() || got[1..1 + want.len()] != want[..] {
        return Err(format!("encoding differs from X.691: got {} bits {:02x?}, want {} bits {:02x?}", w.bit_len() - 1, bytes_of(&got[1..w.bit_len()]), want.len(), bytes_of(&want)));
    }
    // sentinel value behind the message
    w.write_number::<u8, U8C>(0xA5).unwrap();
    let mut rd = w.as_reader();
    let _ = rd.read_bit_field_entry(true);
    // a reader that knows fewer additions skips the unknown present ones by their open-type length (X.691 19.9)
    let back = dispatch!(root_opts(kr, e), n_r, e, do_read, &mut rd, kr).map_err(|e| format!("read failed: {e:?}"))?;
    for j in 0..n_r {
        let expect = if j < n {
            match kw[j] {
                0 => vals[j],
                1 => vals[j],
                _ => Some(vals[j].unwrap_or(42)),
            }
        } else if kr[j] == 2 {
            Some(42)
        } else {
            None
        };
        if back[j] != expect {
            return Err(format!("component {j} decoded as {:?}, expected {:?}", back[j], expect));
        }
    }
    match rd.read_number::<u8, U8C>() {
        Ok(0xA5) => {}
        other => return Err(format!("the value behind the message decoded as {other:?} (reader did not end at the end of the message)")),
    }
    if rd.bits_remaining() != 0 {
        return Err(format!("{} bits left", rd.bits_remaining()));
    }
    Ok(())
}

pub fn search(rng: &mut Rng, budget: u64, try_one: &mut dyn FnMut(Input) -> bool) {
    // all shapes with n <= 4 (kinds 3^n, marker none / after component i), all presence patterns, same-shape reader
    for n in 1..=4usize {
        let nk = 3usize.pow(n as u32);
        for kcode in 0..nk {
            let kinds: Vec<i128> = (0..n).map(|i| ((kcode / 3usize.pow(i as u32)) % 3) as i128).collect();
            for e in -1i64..(n as i64) {
                // DEFAULT components among the additions are outside the conformance profile (not wrapped as open type)
                if e >= 0 && kinds.iter().enumerate().any(|(i, k)| i as i64 > e && *k == 2) {
                    continue;
                }
                if kinds.iter().enumerate().filter(|(i, k)| (e < 0 || *i as i64 <= e) && **k != 0).count() > 4 {
                    continue;
                }
                for pat in 0..(1usize << n) {
                    let vals: Vec<i128> = (0..n)
                        .map(|i| {
                            let p = pat >> i & 1 == 1;
                            match kinds[i] {
                                0 => 17 + i as i128,
                                1 => if p { 200 + i as i128 } else { -1 },
                                _ => if p { 99 } else { 42 },
                            }
                        })
                        .collect();
                    let mut inp = Input::new("seq_shape").v(e as i128).v(n as i128).v(n as i128);
                    for k in &kinds { inp = inp.v(*k); }
                    for v in &vals { inp = inp.v(*v); }
                    if try_one(inp) { return; }
                }
            }
        }
    }
    // cross-version: writer knows n components, reader n_r (additions OPTIONAL), n, n_r <= 5
    for root in 1..=2usize {
        for n in root..=5usize {
            for n_r in root..=5usize {
                for rk in 0..3usize.pow(root as u32) {
                    let nmax = n.max(n_r);
                    let mut kinds: Vec<i128> = (0..root).map(|i| ((rk / 3usize.pow(i as u32)) % 3) as i128).collect();
                    kinds.resize(nmax, 1);
                    if kinds.iter().take(root).filter(|k| **k != 0).count() > 4 { continue; }
                    for pat in 0..(1usize << n) {
                        let vals: Vec<i128> = (0..n)
                            .map(|i| {
                                let p = pat >> i & 1 == 1;
                                match kinds[i] { 0 => 3 + i as i128, 1 => if p { 128 + i as i128 } else { -1 }, _ => if p { 7 } else { 42 } }
                            })
                            .collect();
                        let mut inp = Input::new("seq_shape").v(root as i128 - 1).v(n as i128).v(n_r as i128);
                        for k in &kinds { inp = inp.v(*k); }
                        for v in &vals { inp = inp.v(*v); }
                        if try_one(inp) { return; }
                    }
                }
            }
        }
    }
    let _ = (rng, budget);
}
