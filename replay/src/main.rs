//! Replay + directed concrete search against the REAL asn1rs crate (DESIGN.md 3.5).
//!
//!   replay search <group> <seed> <budget>   exit 1 + `FAILING-INPUT <json>` when an input violates the executable contract
//!   replay replay <json>                    re-executes one recorded input, prints real result and expectation
//!   replay probe <name>                     named probe of a known / repaired defect: exit 1 = reproduces, 0 = does not
//!
//! This is the counterexample engine only; it never decides a property.
mod input;
mod oracle;
mod bits;
mod decode;
mod front;
mod zoo;
mod proto;
mod per;
mod probes;
mod seq;
mod strs;
mod versions;

use input::Input;

pub struct Rng(pub u64);
impl Rng {
    pub fn next(&mut self) -> u64 {
        let mut x = self.0;
        x ^= x << 13;
        x ^= x >> 7;
        x ^= x << 17;
        self.0 = x;
        x
    }
    pub fn below(&mut self, n: u64) -> u64 {
        if n == 0 { 0 } else { self.next() % n }
    }
    pub fn bytes(&mut self, n: usize) -> Vec<u8> {
        (0..n).map(|_| self.next() as u8).collect()
    }
}

/// run a case, catching panics; Err(description) = the executable contract is violated
pub fn run_case(input: &Input) -> Result<(), String> {
    let i = input.clone();
    let r = std::panic::catch_unwind(move || match i.case.as_str() {
        c if c.starts_with("bits_") => bits::run(&i),
        c if c.starts_with("per_") => per::run(&i),
        c if c.starts_with("seq_") => seq::run(&i),
        c if c.starts_with("dec_") => decode::run(&i),
        "proto_zoo" => proto::run(&i),
        "proto_dec" => proto::run_dec(&i),
        "zoo_setorder" => zoo::run_setorder(&i),
        "zoo_types" => zoo::run_zoo(&i),
        "front_resolve" => front::run_resolve(&i),
        "front_inttext" => front::run_inttext(&i),
        "str_api" => strs::run(&i),
        "charset_char" => {
            use asn1rs::model::asn::Charset;
            let c = char::from_u32(i.v[0] as u32).unwrap();
            let u = c as u32;
            let printable = c.is_ascii_alphanumeric() || " '()+,-./:=?".contains(c);
            let checks = [
                (Charset::Utf8, true),
                (Charset::Numeric, c == ' ' || c.is_ascii_digit()),
                (Charset::Printable, printable),
                (Charset::Ia5, u <= 127),
                (Charset::Visible, (32..=126).contains(&u)),
            ];
            for (cs, want) in checks {
                if cs.is_valid(c) != want {
                    return Err(format!("{cs:?}.is_valid({c:?}) = {} but X.680 says {want}", cs.is_valid(c)));
                }
            }
            Ok(())
        }
        other => Err(format!("unknown case {other}")),
    });
    match r {
        Ok(r) => r,
        Err(p) => {
            let msg = if let Some(s) = p.downcast_ref::<String>() {
                s.clone()
            } else if let Some(s) = p.downcast_ref::<&str>() {
                s.to_string()
            } else {
                "panic".to_string()
            };
            Err(format!("PANIC: {msg}"))
        }
    }
}

fn main() {
    if std::env::var_os("VERIF_PANIC_MSG").is_none() {
        std::panic::set_hook(Box::new(|_| {}));
    }
    let args: Vec<String> = std::env::args().collect();
    if args.len() < 3 {
        eprintln!("usage: replay search <group> <seed> <budget> | replay <json> | probe <name>");
        std::process::exit(2);
    }
    match args[1].as_str() {
        "search" => {
            let seed: u64 = args.get(3).and_then(|s| s.parse().ok()).unwrap_or(1);
            let budget: u64 = args.get(4).and_then(|s| s.parse().ok()).unwrap_or(20000);
            let mut rng = Rng(seed.wrapping_mul(0x9E3779B97F4A7C15) | 1);
            let mut tried = 0u64;
            let mut found: Option<(Input, String)> = None;
            {
                let log_last = std::env::var_os("VERIF_LOG_LAST_INPUT");
                let mut try_one = |i: Input| -> bool {
                    tried += 1;
                    if let Some(path) = &log_last {
                        // the process may die inside the real code (allocator abort, stack overflow): keep the input that was running
                        let _ = std::fs::write(path, i.to_json());
                    }
                    if let Err(e) = run_case(&i) {
                        found = Some((i, e));
                        true
                    } else {
                        false
                    }
                };
                match args[2].as_str() {
                    "bits" => bits::search(&mut rng, budget, &mut try_one),
                    "per" => per::search(&mut rng, budget / 4, &mut try_one),
                    "seq" => seq::search(&mut rng, budget, &mut try_one),
                    "decode" => decode::search(&mut rng, budget * 4, &mut try_one),
                    "proto" => proto::search(seed.max(1), budget, &mut try_one),
                    "protodec" => proto::search_dec(seed, budget, &mut try_one),
                    "setorder" => zoo::search_setorder(&mut try_one),
                    "zoo" => zoo::search_zoo(seed.max(1), budget, &mut try_one),
                    "resolve" => front::search_resolve(&mut try_one),
                    "inttext" => front::search_inttext(&mut try_one),
                    "strings" => strs::search(&mut try_one),
                    "charset" => {
                        // exhaustive over all chars: Charset::is_valid against the X.680 clause 41 alphabets
                        let mut c = 0u32;
                        while c <= 0x10FFFF {
                            if char::from_u32(c).is_some() && try_one(Input::new("charset_char").v(c as i128)) {
                                break;
                            }
                            c += 1;
                        }
                    }
                    g => {
                        eprintln!("unknown group {g}");
                        std::process::exit(2);
                    }
                }
            }
            if let Some((i, e)) = found {
                println!("contract violated after {tried} inputs: {e}");
                println!("FAILING-INPUT {}", i.to_json());
                std::process::exit(1);
            }
            println!("no failing input among {tried} inputs (group {}, seed {seed})", args[2]);
        }
        "trace" => {
            // one line per input: the input and the complete observable outcome of decoding it (compared between two builds, C19)
            let seed: u64 = args.get(3).and_then(|s| s.parse().ok()).unwrap_or(1);
            let budget: u64 = args.get(4).and_then(|s| s.parse().ok()).unwrap_or(20000);
            let mut rng = Rng(seed.wrapping_mul(0x9E3779B97F4A7C15) | 1);
            use std::io::Write;
            let out = std::io::stdout();
            let mut out = std::io::BufWriter::new(out.lock());
            for k in 0..budget * 4 {
                let i = decode::make(&mut rng, k);
                let i2 = i.clone();
                let o = std::panic::catch_unwind(move || decode::outcome(&i2)).unwrap_or_else(|_| "PANIC".to_string());
                writeln!(out, "{} => {}", i.to_json(), o).unwrap();
            }
        }
        "outcome" => {
            let i = Input::from_json(&args[2]).expect("bad input json");
            let i2 = i.clone();
            let o = std::panic::catch_unwind(move || decode::outcome(&i2)).unwrap_or_else(|_| "PANIC".to_string());
            println!("{} => {}", i.to_json(), o);
        }
        "gen" => {
            // prints the glue the proc macros of the current tree emit for a schema: asn_to_rust!(schema) gives items carrying
            // #[asn(...)] attributes; for each of them the attribute macro (asn1rs_model::proc_macro::parse) emits the
            // impl Constraint / Readable / Writable blocks.  Output: the items without attributes, then the impls.
            use quote::ToTokens;
            let text = std::fs::read_to_string(&args[2]).expect("schema file");
            let code = asn1rs::model::proc_macro::asn_to_rust(&text);
            let file = syn::parse_file(&code).expect("generated code parses");
            for item in file.items {
                let attrs: Vec<syn::Attribute> = match &item {
                    syn::Item::Struct(s) => s.attrs.clone(),
                    syn::Item::Enum(e) => e.attrs.clone(),
                    _ => vec![],
                };
                let Some(asn) = attrs.iter().find(|a| a.path().is_ident("asn")) else { continue };
                let args_ts: proc_macro2::TokenStream = match &asn.meta { syn::Meta::List(l) => l.tokens.clone(), _ => proc_macro2::TokenStream::new() };
                let mut stripped = item.clone();
                match &mut stripped {
                    syn::Item::Struct(s) => s.attrs.retain(|a| !a.path().is_ident("asn")),
                    syn::Item::Enum(e) => e.attrs.retain(|a| !a.path().is_ident("asn")),
                    _ => {}
                }
                let out = asn1rs::model::proc_macro::parse(args_ts, stripped.to_token_stream());
                println!("// ---- {}", match &item { syn::Item::Struct(s) => s.ident.to_string(), syn::Item::Enum(e) => e.ident.to_string(), _ => String::new() });
                println!("{}", out);
            }
        }
        "replay" => {
            let i = Input::from_json(&args[2]).expect("bad input json");
            match run_case(&i) {
                Ok(()) => {
                    println!("input satisfies the executable contract on this tree: {}", i.to_json());
                }
                Err(e) => {
                    println!("input: {}", i.to_json());
                    println!("contract violated by the real code: {e}");
                    std::process::exit(1);
                }
            }
        }
        "probe" => {
            let r = std::panic::catch_unwind(|| probes::run(&args[2]));
            match r {
                Ok(Some(true)) => {
                    println!("probe {}: defect reproduces", args[2]);
                    std::process::exit(1);
                }
                Ok(Some(false)) => println!("probe {}: defect does not reproduce", args[2]),
                Ok(None) => {
                    eprintln!("unknown probe {}", args[2]);
                    std::process::exit(2);
                }
                Err(_) => {
                    println!("probe {}: defect reproduces (panic)", args[2]);
                    std::process::exit(1);
                }
            }
        }
        _ => std::process::exit(2),
    }
}
