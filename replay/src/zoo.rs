//! A small zoo of schemas compiled by the REAL proc macro / code generator of the current tree (bounded in programs):
//!   group `setorder` (C16): a SET encodes exactly like the SEQUENCE with the same components written in the canonical
//!                           order of X.680 8.6 (order worked out by hand, below) -- wire order and presence-bit order.
//!   group `zoo` (C01 / C02): generated types through UperWriter / UperReader against encodings composed by hand from the
//!                           X.691 reference primitives of oracle.rs; round trip, exact consumption, back-to-back values.
#![allow(dead_code)]
use crate::input::Input;
use crate::oracle as x;
use crate::oracle::{bits_of, bytes_of};
use asn1rs::prelude::*;

pub mod sets {
    use asn1rs::prelude::*;
    asn_to_rust!(
        r"ZooSets DEFINITIONS AUTOMATIC TAGS ::=
        BEGIN
          -- explicit tags of all four classes + an untagged builtin; canonical: w(U4) v(A2) y(A5) x([2]) z(P1)
          SetA ::= SET { z [PRIVATE 1] INTEGER (0..255), y [APPLICATION 5] BOOLEAN, x [2] INTEGER (0..15), w OCTET STRING (SIZE(1)), v [APPLICATION 2] INTEGER (0..3) OPTIONAL }
          SeqA ::= SEQUENCE { w OCTET STRING (SIZE(1)), v INTEGER (0..3) OPTIONAL, y BOOLEAN, x INTEGER (0..15), z INTEGER (0..255) }
          -- untagged builtins sorted by their UNIVERSAL tag; one explicit tag switches automatic tagging off; canonical: b(1) i(2) o(4) s(16) t([0])
          SetB ::= SET { s SEQUENCE OF INTEGER (0..7), o OCTET STRING (SIZE(1)) OPTIONAL, b BOOLEAN, t [0] INTEGER (0..3), i INTEGER (0..255) }
          SeqB ::= SEQUENCE { b BOOLEAN, i INTEGER (0..255), o OCTET STRING (SIZE(1)) OPTIONAL, s SEQUENCE OF INTEGER (0..7), t INTEGER (0..3) }
          -- no tag anywhere: automatic context tags 0..n-1, i.e. textual order
          SetC ::= SET { q BOOLEAN, p INTEGER (0..255), r OCTET STRING (SIZE(1)) OPTIONAL }
          SeqC ::= SEQUENCE { q BOOLEAN, p INTEGER (0..255), r OCTET STRING (SIZE(1)) OPTIONAL }
          -- root components before extension additions; canonical: c([5]) a([9]) | e([1])
          SetD ::= SET { a [9] INTEGER (0..255), c [5] BOOLEAN OPTIONAL, ..., e [1] INTEGER (0..15) OPTIONAL }
          SeqD ::= SEQUENCE { c BOOLEAN OPTIONAL, a INTEGER (0..255), ..., e INTEGER (0..15) OPTIONAL }
          -- untagged references: tagged type, extensible CHOICE (smallest ROOT tag counts: A9); canonical: m(A5) rf(A7) k(A8) ch(A9)
          RefT ::= [APPLICATION 7] INTEGER (0..255)
          ChoiceX ::= CHOICE { p [PRIVATE 1] BOOLEAN, q [APPLICATION 9] INTEGER (0..3), ..., r [APPLICATION 1] BOOLEAN }
          SetE ::= SET { k [APPLICATION 8] BOOLEAN, ch ChoiceX, m [APPLICATION 5] INTEGER (0..15), rf RefT }
          SeqE ::= SEQUENCE { m INTEGER (0..15), rf RefT, k BOOLEAN, ch ChoiceX }
          -- SET OF (U17) after SEQUENCE OF (U16), both after OCTET STRING (U4) and before [0]; canonical: o(4) sq(16) st(17) t([0])
          SetF ::= SET { st SET OF BOOLEAN, t [0] BOOLEAN, sq SEQUENCE OF BOOLEAN, o OCTET STRING (SIZE(1)) }
          SeqF ::= SEQUENCE { o OCTET STRING (SIZE(1)), sq SEQUENCE OF BOOLEAN, st SET OF BOOLEAN, t BOOLEAN }
        END"
    );
}

fn enc<T: Writable>(v: &T) -> Result<(usize, Vec<u8>), String> {
    let mut w = UperWriter::default();
    w.write(v).map_err(|e| format!("encode failed: {e:?}"))?;
    Ok((w.bit_len(), w.byte_content().to_vec()))
}

fn same<A: Writable + Readable + PartialEq + std::fmt::Debug, B: Writable>(set: &A, seq: &B, what: &str) -> Result<(), String> {
    let (sb, sbytes) = enc(set)?;
    let (qb, qbytes) = enc(seq)?;
    if sb != qb || sbytes != qbytes {
        return Err(format!("{what}: SET {set:?} encodes as {sb} bits {sbytes:02x?}, the canonical order gives {qb} bits {qbytes:02x?}"));
    }
    let mut r = UperReader::from((&sbytes[..], sb));
    let back: A = r.read().map_err(|e| format!("{what}: decoding the SET failed: {e:?}"))?;
    if &back != set || r.bits_remaining() != 0 {
        return Err(format!("{what}: SET {set:?} decodes as {back:?} with {} bits left", r.bits_remaining()));
    }
    Ok(())
}

/// v = [which, pattern]
pub fn run_setorder(i: &Input) -> Result<(), String> {
    use sets::*;
    let (which, p) = (i.v[0] as u32, i.v[1] as u64);
    let bit = |k: u32| p >> k & 1 == 1;
    let byte = |k: u32| ((p >> k) as u8).wrapping_mul(37).wrapping_add(k as u8);
    match which {
        0 => same(
            &SetA { z: byte(0), y: bit(1), x: byte(2) & 15, w: vec![byte(3)], v: if bit(4) { Some(byte(5) & 3) } else { None } },
            &SeqA { w: vec![byte(3)], v: if bit(4) { Some(byte(5) & 3) } else { None }, y: bit(1), x: byte(2) & 15, z: byte(0) },
            "SetA (explicit tags of four classes)",
        ),
        1 => {
            let s: Vec<u8> = (0..(p % 4) as u32).map(|k| byte(k) & 7).collect();
            let o = if bit(3) { Some(vec![byte(6)]) } else { None };
            same(&SetB { s: s.clone(), o: o.clone(), b: bit(0), t: byte(1) & 3, i: byte(2) }, &SeqB { b: bit(0), i: byte(2), o, s, t: byte(1) & 3 }, "SetB (untagged builtin types)")
        }
        2 => {
            let r = if bit(1) { Some(vec![byte(4)]) } else { None };
            same(&SetC { q: bit(0), p: byte(2), r: r.clone() }, &SeqC { q: bit(0), p: byte(2), r }, "SetC (automatic tags)")
        }
        3 => {
            let c = if bit(0) { Some(bit(1)) } else { None };
            let e = if bit(2) { Some(byte(3) & 15) } else { None };
            same(&SetD { a: byte(4), c, e }, &SeqD { c, a: byte(4), e }, "SetD (root before additions)")
        }
        4 => {
            let ch = || match p % 3 { 0 => ChoiceX::P(bit(5)), 1 => ChoiceX::Q(byte(6) & 3), _ => ChoiceX::R(bit(7)) };
            same(&SetE { k: bit(0), ch: ch(), m: byte(1) & 15, rf: RefT(byte(2)) }, &SeqE { m: byte(1) & 15, rf: RefT(byte(2)), k: bit(0), ch: ch() }, "SetE (untagged references)")
        }
        _ => {
            let st: Vec<bool> = (0..(p % 3) as u32).map(|k| bit(k + 2)).collect();
            let sq: Vec<bool> = (0..(p / 3 % 3) as u32).map(|k| bit(k + 4)).collect();
            same(&SetF { st: st.clone(), t: bit(0), sq: sq.clone(), o: vec![byte(1)] }, &SeqF { o: vec![byte(1)], sq, st, t: bit(0) }, "SetF (SEQUENCE OF / SET OF)")
        }
    }
}

pub fn search_setorder(try_one: &mut dyn FnMut(Input) -> bool) {
    for which in 0..6 {
        for p in 0..256u64 {
            if try_one(Input::new("zoo_setorder").v(which).v(p)) {
                return;
            }
        }
    }
}

// ------------------------------------------------------------------------------------------------ C01 / C02

pub mod types {
    use asn1rs::prelude::*;
    asn_to_rust!(
        r"ZooTypes DEFINITIONS AUTOMATIC TAGS ::=
        BEGIN
          TailExt ::= SEQUENCE { a INTEGER (0..255), b BOOLEAN OPTIONAL, ..., c INTEGER (0..7) OPTIONAL }
          Mixed ::= SEQUENCE { a INTEGER (0..255) OPTIONAL, b BOOLEAN, c INTEGER (-10..10,...) DEFAULT 3, d UTF8String OPTIONAL, e OCTET STRING (SIZE(1..4)) }
          Color ::= ENUMERATED { red, green, ..., blue, black }
          Marker ::= ENUMERATED { one, two, three, ... }
          WideInt ::= INTEGER (0..MAX, ...)
          Shifted ::= INTEGER (-10..10, ...)
          Pick ::= CHOICE { num INTEGER (0..1000), txt IA5String (SIZE(0..5)), ..., flag BOOLEAN }
          ListA ::= SEQUENCE (SIZE(0..3)) OF INTEGER (0..15)
          ListN ::= SEQUENCE OF NULL
          ListF ::= SET OF INTEGER (7..7)
          Nest ::= SEQUENCE { head Color, items SEQUENCE OF Pick, opt TailExt OPTIONAL, n NULL, wide INTEGER (-32768..32767) }
        END"
    );
}
use types::*;

fn open_type(content: &[bool], out: &mut Vec<bool>) {
    // X.691 11.2: padded to whole octets (at least one), preceded by a general length determinant in octets
    let mut c = content.to_vec();
    if c.is_empty() { c.extend([false; 8]); }
    while c.len() % 8 != 0 { c.push(false); }
    x::len_general((c.len() / 8) as u64, out);
    out.extend(c);
}

fn ref_tailext(v: &TailExt, out: &mut Vec<bool>) {
    out.push(v.c.is_some());
    out.push(v.b.is_some());
    x::cwn(0, 255, v.a as i64, out);
    if let Some(b) = v.b { out.push(b); }
    if let Some(c) = v.c {
        x::nsnnwn(0, out); // one addition: count - 1
        out.push(true);
        let mut inner = Vec::new();
        x::cwn(0, 7, c as i64, &mut inner);
        open_type(&inner, out);
    }
}
fn ref_mixed(v: &Mixed, out: &mut Vec<bool>) {
    out.push(v.a.is_some());
    out.push(v.c != 3);
    out.push(v.d.is_some());
    if let Some(a) = v.a { x::cwn(0, 255, a as i64, out); }
    out.push(v.b);
    if v.c != 3 {
        let inside = (-10..=10).contains(&v.c);
        out.push(!inside);
        if inside { x::cwn(-10, 10, v.c as i64, out); } else { x::uwn(v.c as i64, out); }
    }
    if let Some(d) = &v.d {
        x::sized(None, None, false, &bits_of(d.as_bytes()), 8, out);
    }
    x::sized(Some(1), Some(4), false, &bits_of(&v.e), 8, out);
}
fn ref_color(v: &Color, out: &mut Vec<bool>) {
    let idx = match v { Color::Red => 0, Color::Green => 1, Color::Blue => 2, Color::Black => 3 };
    x::index(2, true, idx, out);
}
fn ref_marker(v: &Marker, out: &mut Vec<bool>) {
    // 14.3: the extension marker alone makes the type extensible: extension bit 0 + index in 0..2
    let idx = match v { Marker::One => 0, Marker::Two => 1, Marker::Three => 2 };
    x::index(3, true, idx, out);
}
fn ref_pick(v: &Pick, out: &mut Vec<bool>) {
    match v {
        Pick::Num(n) => { x::index(2, true, 0, out); x::cwn(0, 1000, *n as i64, out); }
        Pick::Txt(t) => {
            x::index(2, true, 1, out);
            let mut chars = Vec::new();
            for c in t.bytes() { x::nbits(c as u64, 7, &mut chars); }
            x::sized(Some(0), Some(5), false, &chars, 7, out);
        }
        Pick::Flag(f) => { x::index(2, true, 2, out); open_type(&[*f], out); }
    }
}
fn ref_lista(v: &ListA, out: &mut Vec<bool>) {
    x::cwn(0, 3, v.0.len() as i64, out);
    for e in &v.0 { x::cwn(0, 15, *e as i64, out); }
}
fn ref_nest(v: &Nest, out: &mut Vec<bool>) {
    out.push(v.opt.is_some());
    ref_color(&v.head, out);
    x::len_general(v.items.len() as u64, out);
    for p in &v.items { ref_pick(p, out); }
    if let Some(t) = &v.opt { ref_tailext(t, out); }
    x::cwn(-32768, 32767, v.wide as i64, out);
}

fn check<T: Writable + Readable + PartialEq + std::fmt::Debug>(v: &T, want: &[bool], w: &mut UperWriter, expect_all: &mut Vec<bool>) -> Result<(), String> {
    // fresh writer: bit-exact against the reference
    let (bits, bytes) = enc(v)?;
    let got = bits_of(&bytes);
    if bits != want.len() || got[..bits] != want[..] {
        return Err(format!("{v:?}: encoding differs from X.691: got {bits} bits {bytes:02x?}, want {} bits {:02x?}", want.len(), bytes_of(want)));
    }
    let mut r = UperReader::from((&bytes[..], bits));
    let back: T = r.read().map_err(|e| format!("{v:?}: decode failed: {e:?}"))?;
    if &back != v || r.bits_remaining() != 0 {
        return Err(format!("{v:?} decodes as {back:?} with {} bits left", r.bits_remaining()));
    }
    // and appended to the shared writer (back-to-back, unaligned)
    w.write(v).map_err(|e| format!("{v:?}: encode into the shared writer failed: {e:?}"))?;
    expect_all.extend_from_slice(want);
    Ok(())
}

/// round trip only (types outside the conformance profile: no X.691 reference)
fn check_rt<T: Writable + Readable + PartialEq + std::fmt::Debug>(v: &T) -> Result<(), String> {
    let (bits, bytes) = enc(v)?;
    let mut r = UperReader::from((&bytes[..], bits));
    let back: T = r.read().map_err(|e| format!("{v:?}: decode failed: {e:?}"))?;
    if &back != v || r.bits_remaining() != 0 {
        return Err(format!("{v:?} decodes as {back:?} with {} bits left", r.bits_remaining()));
    }
    Ok(())
}

struct Gen(u64);
impl Gen {
    fn n(&mut self, m: u64) -> u64 { self.0 = self.0.wrapping_mul(6364136223846793005).wrapping_add(1442695040888963407); (self.0 >> 33) % m.max(1) }
    fn b(&mut self) -> bool { self.n(2) == 1 }
    fn tailext(&mut self) -> TailExt { TailExt { a: self.n(256) as u8, b: if self.b() { Some(self.b()) } else { None }, c: if self.b() { Some(self.n(8) as u8) } else { None } } }
    fn pick(&mut self) -> Pick {
        match self.n(3) { 0 => Pick::Num([0, 1, 255, 256, 1000][self.n(5) as usize]), 1 => Pick::Txt("AZaz ~"[..self.n(6) as usize].to_string()), _ => Pick::Flag(self.b()) }
    }
}

/// v = [seed]: a batch of values of every zoo type, each checked alone and all of them back-to-back in one writer
pub fn run_zoo(i: &Input) -> Result<(), String> {
    let mut g = Gen(i.v[0] as u64 ^ 0x9E3779B97F4A7C15);
    let mut w = UperWriter::default();
    let mut all: Vec<bool> = Vec::new();
    let mut order: Vec<u8> = Vec::new();
    let mut vals_t = Vec::new();
    let mut vals_m = Vec::new();
    let mut vals_n = Vec::new();
    for _ in 0..6 {
        let mut want = Vec::new();
        match g.n(6) {
            0 => { let v = g.tailext(); ref_tailext(&v, &mut want); check(&v, &want, &mut w, &mut all)?; vals_t.push(v); order.push(0); }
            1 => {
                let c = [3i64, -10, 10, 0, 11, -11, 127, -128, 128, -129, 32767, -32768, 1 << 40][g.n(13) as usize];
                let v = Mixed { a: if g.b() { Some(g.n(256) as u8) } else { None }, b: g.b(), c: c as _, d: if g.b() { Some("aä€"[..[0, 1, 3, 6][g.n(4) as usize]].to_string()) } else { None },
                                e: (0..1 + g.n(4)).map(|k| k as u8 * 77).collect() };
                ref_mixed(&v, &mut want); check(&v, &want, &mut w, &mut all)?; vals_m.push(v); order.push(1);
            }
            2 => {
                if g.b() { let v = [Color::Red, Color::Green, Color::Blue, Color::Black][g.n(4) as usize]; ref_color(&v, &mut want); check(&v, &want, &mut w, &mut all)?; }
                else if g.b() { let v = [Marker::One, Marker::Two, Marker::Three][g.n(3) as usize]; ref_marker(&v, &mut want); check(&v, &want, &mut w, &mut all)?; }
                else {
                    // 13.1: root values of an extensible INTEGER: extension bit 0 + constrained form over the root
                    let v = Shifted([-10i64, -1, 0, 1, 5, 10][g.n(6) as usize] as _);
                    want.push(false); x::cwn(-10, 10, v.0 as i64, &mut want); check(&v, &want, &mut w, &mut all)?;
                }
            }
            3 => { let v = g.pick(); ref_pick(&v, &mut want); check(&v, &want, &mut w, &mut all)?; }
            4 => {
                if g.b() { let v = ListA((0..g.n(4)).map(|_| g.n(16) as u8).collect()); ref_lista(&v, &mut want); check(&v, &want, &mut w, &mut all)?; }
                else if g.b() {
                    // elements of width zero: the encoding is the count alone (X.691 20.6), also at the very end of a message
                    let v = ListN((0..g.n(40)).map(|_| Null).collect()); x::len_general(v.0.len() as u64, &mut want); check(&v, &want, &mut w, &mut all)?;
                } else {
                    let v = ListF((0..g.n(40)).map(|_| 7).collect()); x::len_general(v.0.len() as u64, &mut want); check(&v, &want, &mut w, &mut all)?;
                }
            }
            _ => {
                let v = Nest { head: [Color::Red, Color::Green, Color::Blue, Color::Black][g.n(4) as usize], items: (0..g.n(4)).map(|_| g.pick()).collect(),
                               opt: if g.b() { Some(g.tailext()) } else { None }, n: Null, wide: [0i64, -1, 32767, -32768, 255, -256][g.n(6) as usize] as _ };
                ref_nest(&v, &mut want); check(&v, &want, &mut w, &mut all)?; vals_n.push(v); order.push(2);
            }
        }
    }
    check_rt(&WideInt([0u64, 1, 5, 255, 1 << 40, (1 << 62) + 3][g.n(6) as usize] as _))?;
    // the shared writer holds exactly the concatenation
    let got = bits_of(w.byte_content());
    if w.bit_len() != all.len() || got[..all.len()] != all[..] {
        return Err(format!("back-to-back: {} bits written, the concatenation of the single encodings has {} bits (or differs)", w.bit_len(), all.len()));
    }
    Ok(())
}

pub fn search_zoo(outer: u64, budget: u64, try_one: &mut dyn FnMut(Input) -> bool) {
    for seed in 0..(if budget > 100_000 { 40_000 } else { budget.min(4000) }) {
        // seed 1 (the default of the quick tier) enumerates 0..n; other seeds shift the batch numbers
        if try_one(Input::new("zoo_types").v((outer - 1).wrapping_mul(1_000_003) + seed)) {
            return;
        }
    }
}
