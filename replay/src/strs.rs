//! Bounded stand-in for the character-string methods of `impl Writer for UperWriter` / `impl Reader for UperReader` whose BODIES are
//! outside Verus (`str::chars()` loops, iterator adapters; their protocol-level contract is assumed in unit uper):
//!   group `strings` (C06 / C01): through the real Writer API with every constraint variant below,
//!     Ok  ==> every character is in the X.680 41 alphabet of the type AND the character count satisfies the SIZE constraint
//!             (or the constraint is extensible), and the value reads back unchanged with all bits consumed;
//!     a value outside the alphabet, or outside a NON-extensible SIZE, must be rejected.
//! Enumeration: 5 string types x 5 constraint variants x all strings of length <= 5 over a per-type probe alphabet (valid edge
//! characters and invalid neighbours).  Exhaustive within that bound, labelled bounded in the evidence.
use crate::input::Input;
use asn1rs::descriptor::*;
use asn1rs::model::asn::Tag;
use asn1rs::prelude::*;

macro_rules! cons {
    ($name:ident, $min:expr, $max:expr, $ext:expr) => {
        pub struct $name;
        impl common::Constraint for $name {
            const TAG: Tag = Tag::DEFAULT_UTF8_STRING;
        }
        impl utf8string::Constraint for $name { const MIN: Option<u64> = $min; const MAX: Option<u64> = $max; const EXTENSIBLE: bool = $ext; }
        impl ia5string::Constraint for $name { const MIN: Option<u64> = $min; const MAX: Option<u64> = $max; const EXTENSIBLE: bool = $ext; }
        impl numericstring::Constraint for $name { const MIN: Option<u64> = $min; const MAX: Option<u64> = $max; const EXTENSIBLE: bool = $ext; }
        impl printablestring::Constraint for $name { const MIN: Option<u64> = $min; const MAX: Option<u64> = $max; const EXTENSIBLE: bool = $ext; }
        impl visiblestring::Constraint for $name { const MIN: Option<u64> = $min; const MAX: Option<u64> = $max; const EXTENSIBLE: bool = $ext; }
    };
}
cons!(CNone, None, None, false);
cons!(C14, Some(1), Some(4), false);
cons!(C22, Some(2), Some(2), false);
cons!(C03E, Some(0), Some(3), true);
cons!(C23, Some(2), Some(3), false);
const CONS: [(Option<u64>, Option<u64>, bool); 5] = [(None, None, false), (Some(1), Some(4), false), (Some(2), Some(2), false), (Some(0), Some(3), true), (Some(2), Some(3), false)];

/// per type: probe characters (edges of the alphabet and their invalid neighbours)
const PROBE: [&[char]; 5] = [
    &['a', '\u{7f}', '\u{e9}', '\u{20ac}', '\u{1f600}'],        // UTF8String: everything is admissible; 1..4 byte characters
    &['\u{0}', 'A', '\u{7f}', '\u{80}', '\u{e9}'],              // IA5String: 0..=127
    &[' ', '0', '9', '/', ':', 'a'],                            // NumericString: digits and space
    &['A', 'z', '0', ' ', '?', '=', '*', '!', '@', '_'],        // PrintableString
    &[' ', '~', '\u{1f}', '\u{7f}', 'A', '\u{e9}'],             // VisibleString: 32..=126
];

fn admissible(kind: usize, c: char) -> bool {
    let u = c as u32;
    match kind {
        0 => true,
        1 => u <= 127,
        2 => c == ' ' || c.is_ascii_digit(),
        3 => c.is_ascii_alphanumeric() || " '()+,-./:=?".contains(c),
        _ => (32..=126).contains(&u),
    }
}

fn write_read<C>(kind: usize, s: &str) -> (Result<(), String>, Option<(String, usize)>)
where
    C: utf8string::Constraint + ia5string::Constraint + numericstring::Constraint + printablestring::Constraint + visiblestring::Constraint,
{
    let mut w = UperWriter::default();
    let r = match kind {
        0 => w.write_utf8string::<C>(s),
        1 => w.write_ia5string::<C>(s),
        2 => w.write_numeric_string::<C>(s),
        3 => w.write_printable_string::<C>(s),
        _ => w.write_visible_string::<C>(s),
    };
    if let Err(e) = r {
        return (Err(format!("{e}")), None);
    }
    let n = w.bit_len();
    let bytes = w.byte_content().to_vec();
    let mut rd = UperReader::from((&bytes[..], n));
    let back = match kind {
        0 => rd.read_utf8string::<C>(),
        1 => rd.read_ia5string::<C>(),
        2 => rd.read_numeric_string::<C>(),
        3 => rd.read_printable_string::<C>(),
        _ => rd.read_visible_string::<C>(),
    };
    (Ok(()), Some((back.unwrap_or_else(|e| format!("<decode error {e}>")), rd.bits_remaining())))
}

/// v = [kind, constraint variant, length, digits of the string in base PROBE[kind].len()]
pub fn run(i: &Input) -> Result<(), String> {
    let (kind, cv, len, mut code) = (i.v[0] as usize, i.v[1] as usize, i.v[2] as usize, i.v[3] as u64);
    let alpha = PROBE[kind];
    let mut s = String::new();
    for _ in 0..len {
        s.push(alpha[(code % alpha.len() as u64) as usize]);
        code /= alpha.len() as u64;
    }
    let (w, back) = match cv {
        0 => write_read::<CNone>(kind, &s),
        1 => write_read::<C14>(kind, &s),
        2 => write_read::<C22>(kind, &s),
        3 => write_read::<C03E>(kind, &s),
        _ => write_read::<C23>(kind, &s),
    };
    let (min, max, ext) = CONS[cv];
    let count = s.chars().count() as u64;
    let chars_ok = s.chars().all(|c| admissible(kind, c));
    let size_ok = ext || (min.map_or(true, |m| count >= m) && max.map_or(true, |m| count <= m));
    let name = ["UTF8String", "IA5String", "NumericString", "PrintableString", "VisibleString"][kind];
    match w {
        Ok(()) => {
            if !chars_ok {
                return Err(format!("{name} writer accepts {s:?}, which contains a character outside the alphabet of the type"));
            }
            if !size_ok {
                return Err(format!("{name} writer accepts {s:?} ({count} characters) under SIZE({min:?}..{max:?}), not extensible"));
            }
            let (b, rest) = back.unwrap();
            if b != s || rest != 0 {
                return Err(format!("{name} {s:?} under SIZE({min:?}..{max:?}{}) reads back as {b:?} with {rest} bits left", if ext { ", ..." } else { "" }));
            }
            Ok(())
        }
        Err(e) => {
            if chars_ok && size_ok {
                return Err(format!("{name} writer rejects the admissible value {s:?} under SIZE({min:?}..{max:?}{}): {e}", if ext { ", ..." } else { "" }));
            }
            Ok(())
        }
    }
}

pub fn search(try_one: &mut dyn FnMut(Input) -> bool) {
    for kind in 0..5usize {
        let a = PROBE[kind].len() as u64;
        for cv in 0..5usize {
            for len in 0..=5usize {
                let total = a.pow(len as u32);
                // all strings up to length 4; a stride through the strings of length 5
                let step = if len <= 4 { 1 } else { 7 };
                let mut code = 0u64;
                while code < total {
                    if try_one(Input::new("str_api").v(kind as i64).v(cv as i64).v(len as i64).v(code as i64)) {
                        return;
                    }
                    code += step;
                }
            }
        }
    }
}
