//! Named probes: the concrete failing inputs of known findings and of repaired defects.
//! Some(true) = the defect reproduces on this tree.
use asn1rs::protocol::per::unaligned::buffer::{BitBuffer, Bits};
use asn1rs::protocol::per::unaligned::{BitRead, BitWrite, ScopedBitRead};

pub fn run(name: &str) -> Option<bool> {
    Some(match name {
        // fixed: read_bit at the very end of the slice index-panicked
        "read_bit_at_end" => {
            let data = [0u8];
            let mut pos = 8usize;
            let r = std::panic::catch_unwind(move || BitRead::read_bit(&mut (&data[..], &mut pos)).is_err());
            !matches!(r, Ok(true))
        }
        // fixed: bulk copy cleared destination bits behind the copied range
        "bulk_copy_clobber" => {
            let src = [0xFFu8; 3];
            let mut dst = [0xFFu8; 4];
            let mut pos = 1usize;
            BitWrite::write_bits_with_offset_len(&mut (&mut dst[..], &mut pos), &src, 0, 17).unwrap();
            dst != [0xFF; 4]
        }
        // fixed: Bits read_bits* ignored the visible length
        "bits_ignore_len" => {
            let data = [0xFFu8, 0xFF];
            let mut bits = Bits::from((&data[..], 3));
            let mut dst = [0u8; 1];
            let r = bits.read_bits_with_len(&mut dst, 5);
            r.is_ok() || bits.pos() > bits.len()
        }
        // fixed: BitBuffer grew before a write that then failed
        "bitbuffer_grow_on_err" => {
            let mut b = BitBuffer::default();
            let r = b.write_bits_with_len(&[0u8], 100);
            r.is_err() && b.byte_len() != 0
        }
        // read_octetstring treated a constrained length (ub < 64K) of 16K or more as the first fragment
        "octet_constrained_16k" => {
            use asn1rs::protocol::per::{PackedRead, PackedWrite};
            let data = vec![0xABu8; 20000];
            let mut b = BitBuffer::default();
            b.write_octetstring(Some(0), Some(40000), false, &data).unwrap();
            b.write_bits(&[0x55, 0x55]).unwrap();
            let r = b.read_octetstring(Some(0), Some(40000), false);
            !matches!(r, Ok(ref v) if *v == data)
        }
        // bit strings of 16K bits or more: fragments were not written / read correctly
        "bitstring_16k" => {
            use asn1rs::protocol::per::{PackedRead, PackedWrite};
            let mut bad = false;
            for bits in [16383u64, 16384, 20000, 32768, 65536, 70000, 81920, 200001] {
                let data: Vec<u8> = (0..(bits + 7) / 8).map(|i| (i as u8).wrapping_mul(31) ^ 0x5A).collect();
                let r = std::panic::catch_unwind(|| {
                    let mut b = BitBuffer::default();
                    b.write_bitstring(None, None, false, &data, 0, bits).unwrap();
                    b.write_bits(&[0xA5]).unwrap();
                    let (v, n) = b.read_bitstring(None, None, false).unwrap();
                    let mut tail = [0u8; 1];
                    b.read_bits(&mut tail).unwrap();
                    let mut expect = data.clone();
                    if bits % 8 != 0 {
                        let last = expect.len() - 1;
                        expect[last] &= 0xFFu8 << (8 - bits % 8);
                    }
                    n == bits && v == expect && tail == [0xA5]
                });
                if !matches!(r, Ok(true)) {
                    bad = true;
                }
            }
            bad
        }
        _ => return None,
    })
}
