//! Named probes: the concrete failing inputs of known findings and of repaired defects.
//! Some(true) = the defect reproduces on this tree.
use asn1rs::protocol::per::unaligned::buffer::{BitBuffer, Bits};
use asn1rs::protocol::per::unaligned::{BitRead, BitWrite, ScopedBitRead};

pub fn run(name: &str) -> Option<bool> {
    Some(match name {
        // fixed: read_bit at the very end of the slice index-panicked
        "read_bit_at_end" => {
            let data = [0u8];
            let mut pos = 8usize;
            let r = std::panic::catch_unwind(move || BitRead::read_bit(&mut (&data[..], &mut pos)).is_err());
            !matches!(r, Ok(true))
        }
        // fixed: bulk copy cleared destination bits behind the copied range
        "bulk_copy_clobber" => {
            let src = [0xFFu8; 3];
            let mut dst = [0xFFu8; 4];
            let mut pos = 1usize;
            BitWrite::write_bits_with_offset_len(&mut (&mut dst[..], &mut pos), &src, 0, 17).unwrap();
            dst != [0xFF; 4]
        }
        // fixed: Bits read_bits* ignored the visible length
        "bits_ignore_len" => {
            let data = [0xFFu8, 0xFF];
            let mut bits = Bits::from((&data[..], 3));
            let mut dst = [0u8; 1];
            let r = bits.read_bits_with_len(&mut dst, 5);
            r.is_ok() || bits.pos() > bits.len()
        }
        // fixed: BitBuffer grew before a write that then failed
        "bitbuffer_grow_on_err" => {
            let mut b = BitBuffer::default();
            let r = b.write_bits_with_len(&[0u8], 100);
            r.is_err() && b.byte_len() != 0
        }
        // read_octetstring treated a constrained length (ub < 64K) of 16K or more as the first fragment
        "octet_constrained_16k" => {
            use asn1rs::protocol::per::{PackedRead, PackedWrite};
            let data = vec![0xABu8; 20000];
            let mut b = BitBuffer::default();
            b.write_octetstring(Some(0), Some(40000), false, &data).unwrap();
            b.write_bits(&[0x55, 0x55]).unwrap();
            let r = b.read_octetstring(Some(0), Some(40000), false);
            !matches!(r, Ok(ref v) if *v == data)
        }
        // bit strings of 16K bits or more: fragments were not written / read correctly
        "bitstring_16k" => {
            use asn1rs::protocol::per::{PackedRead, PackedWrite};
            let mut bad = false;
            for bits in [16383u64, 16384, 20000, 32768, 65536, 70000, 81920, 200001] {
                let data: Vec<u8> = (0..(bits + 7) / 8).map(|i| (i as u8).wrapping_mul(31) ^ 0x5A).collect();
                let r = std::panic::catch_unwind(|| {
                    let mut b = BitBuffer::default();
                    b.write_bitstring(None, None, false, &data, 0, bits).unwrap();
                    b.write_bits(&[0xA5]).unwrap();
                    let (v, n) = b.read_bitstring(None, None, false).unwrap();
                    let mut tail = [0u8; 1];
                    b.read_bits(&mut tail).unwrap();
                    let mut expect = data.clone();
                    if bits % 8 != 0 {
                        let last = expect.len() - 1;
                        expect[last] &= 0xFFu8 << (8 - bits % 8);
                    }
                    n == bits && v == expect && tail == [0xA5]
                });
                if !matches!(r, Ok(true)) {
                    bad = true;
                }
            }
            bad
        }
        // fixed: a V1 message (one addition, 200 octets) under a V2 reader (two additions): the presence bit of the
        // addition unknown to the writer was taken from the payload
        "ext_bitmap_local_count" => {
            use crate::versions::{v1, v2};
            use asn1rs::prelude::*;
            let mut w = UperWriter::default();
            w.write(&v1::Msg { a: 7, b: Some(vec![0x11; 200]) }).unwrap();
            w.write(&v1::Tail(4242)).unwrap();
            let mut r = w.as_reader();
            let m = r.read::<v2::Msg>();
            let t = r.read::<v2::Tail>();
            !matches!((m, t), (Ok(m), Ok(t)) if m.a == 7 && m.b == Some(vec![0x11; 200]) && m.c.is_none() && t.0 == 4242 && r.bits_remaining() == 0)
        }
        // known finding: a V2 message with an addition unknown to the V1 reader: the addition is not skipped
        "ext_unknown_not_skipped" => {
            use crate::versions::{v1, v2};
            use asn1rs::prelude::*;
            let mut w = UperWriter::default();
            w.write(&v2::Msg { a: 7, b: Some(vec![0x22; 3]), c: Some(9) }).unwrap();
            w.write(&v2::Tail(4242)).unwrap();
            let mut r = w.as_reader();
            let m = r.read::<v1::Msg>();
            let t = r.read::<v1::Tail>();
            !matches!((m, t), (Ok(m), Ok(t)) if m.a == 7 && m.b == Some(vec![0x22; 3]) && t.0 == 4242 && r.bits_remaining() == 0)
        }
        "lendet_double_lb" => {
            use asn1rs::protocol::per::{PackedRead, PackedWrite};
            let r = std::panic::catch_unwind(|| {
                let mut b = BitBuffer::default();
                b.write_length_determinant(Some(1), Some(70000), 1).unwrap();
                b.read_length_determinant(Some(1), Some(70000)).unwrap() == 1
            });
            !matches!(r, Ok(true))
        }
        "nnbi_write_no_range_check" => {
            use asn1rs::protocol::per::PackedWrite;
            let mut b = BitBuffer::default();
            let a = b.write_non_negative_binary_integer(None, Some(3), 7).is_ok();
            let c = b.write_length_determinant(None, Some(10), 20).is_ok();
            a || c
        }
        "nnbi_read_above_upper" => {
            use asn1rs::protocol::per::PackedRead;
            let r = std::panic::catch_unwind(|| {
                let mut b = BitBuffer::from_bits(vec![0xC0], 2);
                b.read_constrained_whole_number(i64::MAX - 2, i64::MAX).is_err()
            });
            !matches!(r, Ok(true))
        }
        "cwn_single_value_and_wide_range" => {
            use asn1rs::protocol::per::{PackedRead, PackedWrite};
            let mut b = BitBuffer::default();
            let single = b.write_constrained_whole_number(5, 5, 6).is_ok();
            let wide = std::panic::catch_unwind(|| {
                let mut b = BitBuffer::default();
                b.write_constrained_whole_number(i64::MIN, i64::MAX, -3).unwrap();
                b.read_constrained_whole_number(i64::MIN, i64::MAX).unwrap() == -3
            });
            single || !matches!(wide, Ok(true))
        }
        "semi_read_overflow_enum_underflow" => {
            use asn1rs::protocol::per::PackedRead;
            let a = std::panic::catch_unwind(|| {
                // length 8, value 0xFFFF_FFFF_FFFF_FFFF, lower bound 5
                let mut b = BitBuffer::from_bytes(vec![0x08, 0xFF, 0xFF, 0xFF, 0xFF, 0xFF, 0xFF, 0xFF, 0xFF]);
                b.read_semi_constrained_whole_number(5).is_err()
            });
            let c = std::panic::catch_unwind(|| {
                let mut b = BitBuffer::from_bytes(vec![0x00]);
                let _ = b.read_enumeration_index(0, false);
                true
            });
            !matches!(a, Ok(true)) || !matches!(c, Ok(true))
        }
        "twos_complement_write_args" => {
            use asn1rs::protocol::per::PackedWrite;
            let a = std::panic::catch_unwind(|| BitBuffer::default().write_2s_compliment_binary_integer(65, 1).is_err());
            let c = BitBuffer::default().write_2s_compliment_binary_integer(8, 300).is_ok();
            !matches!(a, Ok(true)) || c
        }
        "semi_zero_without_octet" => {
            use asn1rs::protocol::per::PackedWrite;
            let mut b = BitBuffer::default();
            b.write_semi_constrained_whole_number(7, 7).unwrap();
            b.content() != [0x01, 0x00]
        }
        "semi_write_overflow" => {
            use asn1rs::protocol::per::{PackedRead, PackedWrite};
            let r = std::panic::catch_unwind(|| {
                let mut b = BitBuffer::default();
                b.write_semi_constrained_whole_number(i64::MIN, 1).unwrap();
                b.read_semi_constrained_whole_number(i64::MIN).unwrap() == 1
            });
            !matches!(r, Ok(true))
        }
        "lendet_fixed_64k_unchecked" => {
            use asn1rs::protocol::per::PackedWrite;
            BitBuffer::default().write_length_determinant(Some(70000), Some(70000), 5).is_ok()
        }
        "lendet_fragment_count_truncated" => {
            use asn1rs::protocol::per::PackedWrite;
            let mut b = BitBuffer::default();
            let f = b.write_length_determinant(None, None, 256 * 16384).unwrap();
            f != Some(65536) || b.content() != [0xC4]
        }
        "semi_read_rejects_representable" => {
            use asn1rs::protocol::per::{PackedRead, PackedWrite};
            let mut b = BitBuffer::default();
            b.write_semi_constrained_whole_number(-5, i64::MAX - 1).unwrap();
            !matches!(b.read_semi_constrained_whole_number(-5), Ok(v) if v == i64::MAX - 1)
        }
        "open_type_limit_not_applied" => {
            use asn1rs::prelude::*;
            // open type of 1 octet announced; the closure tries to read 16 bits and must fail, the data behind stays
            let data = [0xABu8, 0xCD, 0xEF];
            let mut r = UperReader::from((&data[..], 24));
            let inner = r.read_whole_sub_slice(1, |r| {
                let mut got = 0usize;
                while r.bits_remaining() > 0 {
                    got += r.bits_remaining().min(1);
                    let _ = r.read_bit_field_entry(true)?;
                }
                Ok(got)
            });
            !matches!(inner, Ok(8)) || r.bits_remaining() != 16
        }
        // known finding: INTEGER without a lower bound maps to an unsigned type
        "inttype_min_absent" => {
            use asn1rs::model::parse::Tokenizer;
            use asn1rs::model::rust::{Rust, RustType};
            use asn1rs::model::Model;
            let text = "M DEFINITIONS AUTOMATIC TAGS ::= BEGIN A ::= INTEGER (MIN..100) B ::= INTEGER END";
            let model = Model::try_from(Tokenizer::default().parse(text)).unwrap().try_resolve().unwrap().to_rust();
            let unsigned = |name: &str| {
                model.definitions.iter().any(|d| d.0 == name && matches!(&d.1, Rust::TupleStruct { r#type: RustType::U8(_) | RustType::U16(_) | RustType::U32(_) | RustType::U64(_), .. }))
            };
            unsigned("A") || unsigned("B")
        }
        // fixed: a negative value reference used as SIZE bound became a bound near 2^64
        "negative_size_reference" => {
            use asn1rs::model::parse::Tokenizer;
            use asn1rs::model::Model;
            let text = "M DEFINITIONS AUTOMATIC TAGS ::= BEGIN neg INTEGER ::= -1 A ::= OCTET STRING (SIZE(0..neg)) END";
            let r = Model::try_from(Tokenizer::default().parse(text)).unwrap().try_resolve();
            r.is_ok()
        }
        // a mandatory NULL root component is not counted by the presence protocol: the extension header is missing
        "null_not_counted" => {
            use crate::versions::nullseq::Msg;
            use asn1rs::prelude::*;
            let mut w = UperWriter::default();
            w.write(&Msg { a: Null, b: 7, c: Some(9) }).unwrap();
            // X.691: ext bit 1, b = 0x07, then count-1 (7 bits 0000000), bitmap '1', open type: length 1, 0x09
            // 1 00000111 0000000 1 00000001 00001001  = 33 bits
            let want: [u8; 5] = [0b1000_0011, 0b1000_0000, 0b1000_0000, 0b1000_0100, 0b1000_0000];
            if std::env::var_os("VERIF_PANIC_MSG").is_some() { eprintln!("bits={} bytes={:02x?}", w.bit_len(), w.byte_content()); }
            !(w.bit_len() == 33 && w.byte_content() == &want[..])
        }
        // fixed: a few octets announcing a huge length made the string / SEQUENCE OF readers allocate the announced size (abort)
        "alloc_unchecked_length" => {
            use crate::decode::Sz;
            use asn1rs::descriptor::numbers::Integer;
            use asn1rs::descriptor::Reader;
            use asn1rs::prelude::*;
            // SIZE (5..MAX): the length is a semi-constrained number: 8 length octets follow, value 2^62 (4 EiB)
            let bytes = [0x08u8, 0x40, 0, 0, 0, 0, 0, 0, 0, 0x41, 0x42];
            let mut bad = false;
            macro_rules! probe { ($e:expr) => {{
                let r = std::panic::catch_unwind(|| { let mut r: UperReader<Bits> = UperReader::from((&bytes[..], bytes.len() * 8)); $e(&mut r).is_err() });
                bad |= !matches!(r, Ok(true));
            }}; }
            probe!(|r: &mut UperReader<Bits>| r.read_ia5string::<Sz<5, -1, false>>());
            probe!(|r: &mut UperReader<Bits>| r.read_numeric_string::<Sz<5, -1, false>>());
            probe!(|r: &mut UperReader<Bits>| r.read_printable_string::<Sz<5, -1, false>>());
            probe!(|r: &mut UperReader<Bits>| r.read_visible_string::<Sz<5, -1, false>>());
            probe!(|r: &mut UperReader<Bits>| r.read_octet_string::<Sz<5, -1, false>>());
            probe!(|r: &mut UperReader<Bits>| r.read_bit_string::<Sz<5, -1, false>>());
            probe!(|r: &mut UperReader<Bits>| r.read_sequence_of::<Sz<5, -1, false>, Integer<u64, crate::decode::Nc<0, 0, false, false, false>>>());
            bad
        }
        // C01 candidates: round trip of values the property explicitly includes
        "rt_seqof_16k" => {
            use crate::versions::kf::BigList;
            use asn1rs::prelude::*;
            [16383usize, 16384, 16385, 32768, 65536, 70000].iter().any(|n| rt_fails(&BigList((0..*n).map(|i| i % 3 == 0).collect())))
        }
        "rt_ia5_16k" => {
            use crate::versions::kf::BigStr;
            use asn1rs::prelude::*;
            [16383usize, 16384, 16385, 65536, 70000].iter().any(|n| rt_fails(&BigStr("abcdefgh".repeat(n / 8 + 1)[..*n].to_string())))
        }
        "rt_default_addition" => {
            use crate::versions::kf::DefAdd;
            rt_fails(&DefAdd { a: true, d: 9 }) || rt_fails(&DefAdd { a: false, d: 5 })
        }
        "rt_open_type_16k" => {
            use crate::versions::kf::BigAdd;
            rt_fails(&BigAdd { a: true, o: Some(vec![0x5A; 20000]) })
        }
        "proto_choice_null" => crate::proto::probe_choice_null(),
        "proto_len_beyond_input" => crate::proto::probe_malformed(0),
        "proto_bitvec_short" => crate::proto::probe_malformed(1),
        "proto_root_seqof" => crate::proto::probe_malformed(2),
        _ => return None,
    })
}

/// true = the round trip (encode Ok => decode gives the same value and consumes exactly the produced bits) FAILS
fn rt_fails<T: asn1rs::descriptor::Writable + asn1rs::descriptor::Readable + PartialEq + std::fmt::Debug>(v: &T) -> bool {
    use asn1rs::prelude::*;
    let r = std::panic::catch_unwind(std::panic::AssertUnwindSafe(|| {
        let mut w = UperWriter::default();
        if w.write(v).is_err() {
            return false; // the property only speaks about successful encodings
        }
        let (bits, bytes) = (w.bit_len(), w.byte_content().to_vec());
        let mut r = UperReader::from((&bytes[..], bits));
        match r.read::<T>() {
            Ok(back) => {
                if std::env::var_os("VERIF_PANIC_MSG").is_some() && (&back != v || r.bits_remaining() != 0) { eprintln!("decoded differently, {} bits left of {bits}", r.bits_remaining()); }
                &back != v || r.bits_remaining() != 0
            }
            Err(e) => { if std::env::var_os("VERIF_PANIC_MSG").is_some() { eprintln!("decode error {e:?}"); } true }
        }
    }));
    r.unwrap_or(true)
}
