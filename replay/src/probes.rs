//! Named probes: the concrete failing inputs of known findings and of repaired defects.
//! Some(true) = the defect reproduces on this tree.
use asn1rs::protocol::per::unaligned::buffer::{BitBuffer, Bits};
use asn1rs::protocol::per::unaligned::{BitRead, BitWrite, ScopedBitRead};

pub fn run(name: &str) -> Option<bool> {
    Some(match name {
        // fixed: read_bit at the very end of the slice index-panicked
        "read_bit_at_end" => {
            let data = [0u8];
            let mut pos = 8usize;
            let r = std::panic::catch_unwind(move || BitRead::read_bit(&mut (&data[..], &mut pos)).is_err());
            !matches!(r, Ok(true))
        }
        // fixed: bulk copy cleared destination bits behind the copied range
        "bulk_copy_clobber" => {
            let src = [0xFFu8; 3];
            let mut dst = [0xFFu8; 4];
            let mut pos = 1usize;
            BitWrite::write_bits_with_offset_len(&mut (&mut dst[..], &mut pos), &src, 0, 17).unwrap();
            dst != [0xFF; 4]
        }
        // fixed: Bits read_bits* ignored the visible length
        "bits_ignore_len" => {
            let data = [0xFFu8, 0xFF];
            let mut bits = Bits::from((&data[..], 3));
            let mut dst = [0u8; 1];
            let r = bits.read_bits_with_len(&mut dst, 5);
            r.is_ok() || bits.pos() > bits.len()
        }
        // fixed: BitBuffer grew before a write that then failed
        "bitbuffer_grow_on_err" => {
            let mut b = BitBuffer::default();
            let r = b.write_bits_with_len(&[0u8], 100);
            r.is_err() && b.byte_len() != 0
        }
        _ => return None,
    })
}
