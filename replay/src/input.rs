//! A recorded input: a case name, integers and byte strings.  Tiny fixed-schema JSON.
#[derive(Clone, Debug, Default)]
pub struct Input {
    pub case: String,
    pub v: Vec<i128>,
    pub b: Vec<Vec<u8>>,
}

impl Input {
    pub fn new(case: &str) -> Self {
        Input { case: case.to_string(), v: vec![], b: vec![] }
    }
    pub fn v(mut self, x: impl TryInto<i128>) -> Self {
        self.v.push(x.try_into().ok().expect("int"));
        self
    }
    pub fn b(mut self, x: &[u8]) -> Self {
        self.b.push(x.to_vec());
        self
    }
    pub fn to_json(&self) -> String {
        let v: Vec<String> = self.v.iter().map(|x| format!("\"{x}\"")).collect();
        let b: Vec<String> = self
            .b
            .iter()
            .map(|x| format!("\"{}\"", x.iter().map(|c| format!("{c:02x}")).collect::<String>()))
            .collect();
        format!("{{\"case\": \"{}\", \"v\": [{}], \"b\": [{}]}}", self.case, v.join(", "), b.join(", "))
    }
    pub fn from_json(s: &str) -> Option<Self> {
        // fixed schema; strings contain no escapes
        let strings = |key: &str| -> Option<Vec<String>> {
            let k = s.find(&format!("\"{key}\""))?;
            let rest = &s[k..];
            let a = rest.find('[')?;
            let e = rest.find(']')?;
            let inner = &rest[a + 1..e];
            Some(
                inner
                    .split(',')
                    .map(|x| x.trim().trim_matches('"').to_string())
                    .filter(|x| !x.is_empty() || inner.contains("\"\""))
                    .collect(),
            )
        };
        let k = s.find("\"case\"")?;
        let rest = &s[k + 6..];
        let a = rest.find('"')?;
        let rest = &rest[a + 1..];
        let e = rest.find('"')?;
        let case = rest[..e].to_string();
        let v = strings("v")?.iter().filter(|x| !x.is_empty()).map(|x| x.parse::<i128>().unwrap()).collect();
        let braw = {
            let k = s.find("\"b\"")?;
            let rest = &s[k..];
            let a = rest.find('[')?;
            let e = rest.find(']')?;
            let inner = rest[a + 1..e].trim();
            if inner.is_empty() {
                vec![]
            } else {
                inner.split(',').map(|x| x.trim().trim_matches('"').to_string()).collect::<Vec<_>>()
            }
        };
        let b = braw
            .iter()
            .map(|h| (0..h.len() / 2).map(|i| u8::from_str_radix(&h[2 * i..2 * i + 2], 16).unwrap()).collect())
            .collect();
        Some(Input { case, v, b })
    }
    pub fn u(&self, i: usize) -> usize {
        self.v[i] as usize
    }
}
