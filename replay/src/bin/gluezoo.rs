//! Counterexample engine for failed obligations of unit `glue`: the zoo schemas of contracts/zoo/*.asn compiled by the REAL proc
//! macro of the current tree (gluezoo_gen.rs is written by tools/run.py on demand).  It needs no per-type value generator: every
//! value the real reader produces from arbitrary bits must survive write -> read unchanged, the reader consuming exactly the bits
//! written, also for two values back to back (the executable form of C01 on decoder-reachable values).  Never run on its own
//! as a check: only after a glue obligation failed, to look for an input that shows the failure on the real code.
use asn1rs::prelude::*;

include!("../gluezoo_gen.rs");

fn rt<T: Readable + Writable + PartialEq + std::fmt::Debug>(bytes: &[u8], bits: usize) -> Result<bool, String> {
    let mut r = UperReader::from((bytes, bits));
    let v: T = match r.read::<T>() {
        Ok(v) => v,
        Err(_) => return Ok(false),
    };
    let mut w = UperWriter::default();
    if w.write(&v).is_err() {
        return Ok(false); // outside the encoder's domain: not a round-trip claim
    }
    let n = w.bit_len();
    let enc = w.byte_content().to_vec();
    let mut r2 = UperReader::from((&enc[..], n));
    match r2.read::<T>() {
        Ok(v2) if v2 == v => {}
        Ok(v2) => return Err(format!("value {v:?} is written as {n} bits {enc:02x?} and read back as {v2:?}")),
        Err(e) => return Err(format!("value {v:?} is written as {n} bits {enc:02x?}, which the reader rejects: {e}")),
    }
    if r2.bits_remaining() != 0 {
        return Err(format!("value {v:?} is written as {n} bits, the reader leaves {} of them", r2.bits_remaining()));
    }
    let mut w = UperWriter::default();
    if w.write(&v).is_err() || w.write(&v).is_err() {
        return Ok(false);
    }
    let n2 = w.bit_len();
    let enc2 = w.byte_content().to_vec();
    let mut r3 = UperReader::from((&enc2[..], n2));
    for k in 0..2 {
        match r3.read::<T>() {
            Ok(v3) if v3 == v => {}
            Ok(v3) => return Err(format!("back-to-back: copy {k} of {v:?} reads back as {v3:?}")),
            Err(e) => return Err(format!("back-to-back: copy {k} of {v:?} is rejected: {e}")),
        }
    }
    if r3.bits_remaining() != 0 {
        return Err(format!("back-to-back: {} bits left after two copies of {v:?}", r3.bits_remaining()));
    }
    Ok(true)
}

struct Rng(u64);
impl Rng {
    fn next(&mut self) -> u64 {
        self.0 ^= self.0 << 13;
        self.0 ^= self.0 >> 7;
        self.0 ^= self.0 << 17;
        self.0
    }
}

fn json(ty: &str, bytes: &[u8], bits: usize) -> String {
    format!("{{\"group\":\"gluezoo\",\"type\":\"{}\",\"bytes\":{:?},\"bits\":{}}}", ty, bytes, bits)
}

fn main() {
    let args: Vec<String> = std::env::args().collect();
    match args.get(1).map(|s| s.as_str()) {
        Some("search") => {
            let seed: u64 = args.get(2).and_then(|s| s.parse().ok()).unwrap_or(1);
            let budget: usize = args.get(3).and_then(|s| s.parse().ok()).unwrap_or(20000);
            let mut rng = Rng(seed.wrapping_mul(0x9E37_79B9_7F4A_7C15) | 1);
            let mut tried = 0usize;
            let mut decoded = 0usize;
            // optional: only the types whose name contains this text (the type a failed obligation names is tried first)
            let only = args.get(4).cloned().unwrap_or_default();
            let n_types = TYPES.iter().filter(|(n, _)| n.contains(only.as_str())).count();
            let per_type = (budget / n_types.max(1)).max(1);
            for (name, f) in TYPES.iter().filter(|(n, _)| n.contains(only.as_str())) {
                for i in 0..per_type {
                    let len = (rng.next() % 20) as usize + 1;
                    let mut bytes: Vec<u8> = (0..len).map(|_| rng.next() as u8).collect();
                    match i % 4 {
                        1 => bytes.iter_mut().for_each(|b| *b &= rng.next() as u8),           // sparse
                        2 => bytes.iter_mut().for_each(|b| *b |= rng.next() as u8),           // dense
                        3 => { let k = (rng.next() as usize) % len; for b in bytes.iter_mut().skip(k) { *b = 0; } } // zero tail
                        _ => {}
                    }
                    let bits = 8 * len - (rng.next() % 8) as usize;
                    tried += 1;
                    match f(&bytes, bits) {
                        Ok(true) => decoded += 1,
                        Ok(false) => {}
                        Err(e) => {
                            println!("contract violated by the real code for generated type {name}: {e}");
                            println!("FAILING-INPUT {}", json(name, &bytes, bits));
                            std::process::exit(1);
                        }
                    }
                }
            }
            println!("no failing input among {tried} inputs ({decoded} decoded to a value and were round-tripped) over {n_types} generated types");
        }
        Some("replay") => {
            // gluezoo replay <type> <bits> <byte> <byte> ...
            let ty = &args[2];
            let bits: usize = args[3].parse().expect("bits");
            let bytes: Vec<u8> = args[4..].iter().map(|s| s.parse().expect("byte")).collect();
            let f = TYPES.iter().find(|(n, _)| n == ty).expect("unknown type").1;
            match f(&bytes, bits) {
                Ok(_) => println!("input satisfies the executable contract on this tree"),
                Err(e) => {
                    println!("contract violated by the real code for generated type {ty}: {e}");
                    std::process::exit(1);
                }
            }
        }
        _ => {
            eprintln!("usage: gluezoo search <seed> <budget> [type] | gluezoo replay <type> <bits> <bytes...>");
            std::process::exit(2);
        }
    }
}
