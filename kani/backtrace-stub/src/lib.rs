//! Stand-in for the `backtrace` crate under Kani: no semantic effect on asn1rs (diagnostics only).
#[derive(Clone, Default)]
pub struct Backtrace;
impl Backtrace {
    pub fn new() -> Self { Backtrace }
    pub fn new_unresolved() -> Self { Backtrace }
    pub fn resolve(&mut self) {}
}
impl core::fmt::Debug for Backtrace {
    fn fmt(&self, f: &mut core::fmt::Formatter<'_>) -> core::fmt::Result { f.write_str("<backtrace>") }
}
