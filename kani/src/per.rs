//! C10 / C06 / C02: PER primitives against an executable X.691 oracle, all arguments symbolic.
//! Target: fixed slice writer `(&mut [u8], &mut usize)` and slice reader `(&[u8], &mut usize)`.
use asn1rs::protocol::per::unaligned::{BitRead, BitWrite};
use asn1rs::protocol::per::{PackedRead, PackedWrite};

const N: usize = 12; // bytes of the target buffer (96 bits >= 7 start offset + 80 bits, the longest primitive)

fn bit_at(buf: &[u8], i: usize) -> bool {
    buf[i / 8] & (0x80 >> (i % 8)) != 0
}

/// independent bit width (X.691 11.5.4: minimum number of bits to hold `range`), loop free
fn width(range: u64) -> usize {
    if range == 0 { 0 } else { range.ilog2() as usize + 1 }
}

fn as_u128(buf: &[u8; N]) -> u128 {
    let mut x = [0u8; 16];
    x[16 - N..].copy_from_slice(&buf[..]);
    u128::from_be_bytes(x)
}

/// expected: bits [pos, pos+w) are the w-bit big-endian `v`; everything else as in `before`.
/// Loop-free: the whole buffer is compared as one 96-bit number.
fn check_field(before: &[u8; N], after: &[u8; N], pos: usize, w: usize, v: u64) {
    check_field128(before, after, pos, w, v as u128)
}

fn check_field128(before: &[u8; N], after: &[u8; N], pos: usize, w: usize, v: u128) {
    assert!(pos + w <= N * 8);
    let shift = (N * 8 - pos - w) as u32;
    let field_mask: u128 = if w == 0 { 0 } else { ((1u128 << w) - 1) << shift };
    let want = (as_u128(before) & !field_mask) | ((v << shift) & field_mask);
    assert!(v >> w == 0);
    assert!(as_u128(after) == want);
}

fn start() -> ([u8; N], usize) {
    let buf: [u8; N] = kani::any();
    let pos: usize = kani::any();
    kani::assume(pos < 8);
    (buf, pos)
}

/// 11.5 constrained whole number: Ok iff lb <= v <= ub; bits == nbits(v - lb, width(ub - lb)); frame; round trip.
/// complete: loops bounded by 64 (bit copy) / 96 (frame check)
#[kani::proof]
#[kani::unwind(18)]
fn per_cwn() {
    let (before, pos0) = start();
    let mut buf = before;
    let mut pos = pos0;
    let (lb, ub, v): (i64, i64, i64) = (kani::any(), kani::any(), kani::any());
    let r = (&mut buf[..], &mut pos).write_constrained_whole_number(lb, ub, v);
    let admissible = lb <= v && v <= ub;
    assert_eq!(r.is_ok(), admissible);
    if admissible {
        let range = (ub as i128 - lb as i128) as u64;
        let w = width(range);
        assert_eq!(pos, pos0 + w);
        check_field(&before, &buf, pos0, w, (v as i128 - lb as i128) as u64);
        let mut rp = pos0;
        let back = (&buf[..], &mut rp).read_constrained_whole_number(lb, ub);
        assert_eq!(back.unwrap(), v);
        assert_eq!(rp, pos);
    } else {
        assert_eq!(pos, pos0);
        assert!(buf == before);
    }
}

/// 11.3 with bounds (as used for lengths and indices)
#[kani::proof]
#[kani::unwind(18)]
fn per_nnbi_constrained() {
    let (before, pos0) = start();
    let mut buf = before;
    let mut pos = pos0;
    let (lb, ub, v): (Option<u64>, Option<u64>, u64) = (kani::any(), kani::any(), kani::any());
    kani::assume(lb.is_some() || ub.is_some());
    let l = lb.unwrap_or(0);
    let u = ub.unwrap_or(i64::MAX as u64);
    let r = (&mut buf[..], &mut pos).write_non_negative_binary_integer(lb, ub, v);
    let admissible = l <= v && v <= u;
    assert_eq!(r.is_ok(), admissible);
    if admissible {
        let w = width(u - l);
        assert_eq!(pos, pos0 + w);
        check_field(&before, &buf, pos0, w, v - l);
        let mut rp = pos0;
        assert_eq!((&buf[..], &mut rp).read_non_negative_binary_integer(lb, ub).unwrap(), v);
        assert_eq!(rp, pos);
    } else {
        assert_eq!(pos, pos0);
        assert!(buf == before);
    }
}

fn min_octets(v: u64) -> usize {
    let mut n = 1;
    let mut x = v >> 8;
    while x > 0 {
        n += 1;
        x >>= 8;
    }
    n
}

/// 11.7 semi-constrained: length octet (0 + 7 bits) + minimum octets (11.3.6, at least one); round trip
#[kani::proof]
#[kani::unwind(18)]
fn per_semi() {
    let (before, pos0) = start();
    let mut buf = before;
    let mut pos = pos0;
    let (lb, v): (i64, i64) = (kani::any(), kani::any());
    let r = (&mut buf[..], &mut pos).write_semi_constrained_whole_number(lb, v);
    assert_eq!(r.is_ok(), v >= lb);
    if v >= lb {
        let n = (v as i128 - lb as i128) as u64;
        let k = min_octets(n);
        assert_eq!(pos, pos0 + 8 + 8 * k);
        // length determinant 11.9.3.6 then the octets: together the (8 + 8k)-bit number (k << 8k) | n
        check_field128(&before, &buf, pos0, 8 + 8 * k, ((k as u128) << (8 * k)) | n as u128);
        let mut rp = pos0;
        let back = (&buf[..], &mut rp).read_semi_constrained_whole_number(lb);
        if n <= i64::MAX as u64 {
            assert_eq!(back.unwrap(), v);
            assert_eq!(rp, pos);
        }
    } else {
        assert_eq!(pos, pos0);
        assert!(buf == before);
    }
}

/// 11.6 normally small non-negative whole number
#[kani::proof]
#[kani::unwind(18)]
fn per_nsnnwn() {
    let (before, pos0) = start();
    let mut buf = before;
    let mut pos = pos0;
    let v: u64 = kani::any();
    (&mut buf[..], &mut pos).write_normally_small_non_negative_whole_number(v).unwrap();
    if v < 64 {
        assert_eq!(pos, pos0 + 7);
        check_field(&before, &buf, pos0, 7, v); // leading 0 + 6 bits
    } else {
        let k = min_octets(v);
        assert_eq!(pos, pos0 + 1 + 8 + 8 * k);
        assert!(bit_at(&buf, pos0));
    }
    let mut rp = pos0;
    assert_eq!((&buf[..], &mut rp).read_normally_small_non_negative_whole_number().unwrap(), v);
    assert_eq!(rp, pos);
}

fn min_octets_2c(v: i64) -> usize {
    let mut k = 1;
    while k < 8 {
        let bits = 8 * k as u32;
        let lo = -(1i128 << (bits - 1));
        let hi = (1i128 << (bits - 1)) - 1;
        if (v as i128) >= lo && (v as i128) <= hi {
            return k;
        }
        k += 1;
    }
    8
}

/// 11.8 unconstrained whole number: length octet + minimum-octet 2's complement (11.4.6); round trip
#[kani::proof]
#[kani::unwind(18)]
fn per_uwn() {
    let (before, pos0) = start();
    let mut buf = before;
    let mut pos = pos0;
    let v: i64 = kani::any();
    (&mut buf[..], &mut pos).write_unconstrained_whole_number(v).unwrap();
    let k = min_octets_2c(v);
    assert_eq!(pos, pos0 + 8 + 8 * k);
    let low = if k == 8 { v as u64 as u128 } else { (v as u64 as u128) & ((1u128 << (8 * k)) - 1) };
    check_field128(&before, &buf, pos0, 8 + 8 * k, ((k as u128) << (8 * k)) | low);
    let mut rp = pos0;
    assert_eq!((&buf[..], &mut rp).read_unconstrained_whole_number().unwrap(), v);
    assert_eq!(rp, pos);
}

/// 11.4 2's complement with explicit bit length: Ok iff 1 <= bit_len <= 64 and the value is representable
#[kani::proof]
#[kani::unwind(18)]
fn per_2c() {
    let (before, pos0) = start();
    let mut buf = before;
    let mut pos = pos0;
    let (bit_len, v): (u64, i64) = (kani::any(), kani::any());
    let r = (&mut buf[..], &mut pos).write_2s_compliment_binary_integer(bit_len, v);
    let fits = bit_len >= 1 && bit_len <= 64 && (bit_len == 64 || ((v as i128) >= -(1i128 << (bit_len - 1)) && (v as i128) < (1i128 << (bit_len - 1))));
    assert_eq!(r.is_ok(), fits);
    if fits {
        let w = bit_len as usize;
        assert_eq!(pos, pos0 + w);
        let mask = if w == 64 { u64::MAX } else { (1u64 << w) - 1 };
        check_field(&before, &buf, pos0, w, (v as u64) & mask);
        let mut rp = pos0;
        assert_eq!((&buf[..], &mut rp).read_2s_compliment_binary_integer(bit_len).unwrap(), v);
        assert_eq!(rp, pos);
    } else {
        assert_eq!(pos, pos0);
        assert!(buf == before);
    }
}

/// 11.9 length determinant, n < 16K region of every form + fragment header for n >= 16K; round trip of the announced length
#[kani::proof]
#[kani::unwind(18)]
fn per_length_determinant() {
    let (before, pos0) = start();
    let mut buf = before;
    let mut pos = pos0;
    let (lb, ub, n): (Option<u64>, Option<u64>, u64) = (kani::any(), kani::any(), kani::any());
    let r = (&mut buf[..], &mut pos).write_length_determinant(lb, ub, n);
    if lb.is_none() && ub.is_none() {
        let f = r.unwrap();
        if n < 128 {
            assert_eq!(pos, pos0 + 8);
            check_field(&before, &buf, pos0, 8, n);
            assert!(f.is_none());
        } else if n < 16384 {
            assert_eq!(pos, pos0 + 16);
            check_field(&before, &buf, pos0, 16, 0x8000 | n);
            assert!(f.is_none());
        } else {
            let blocks = if n / 16384 >= 4 { 4 } else { n / 16384 };
            assert_eq!(pos, pos0 + 8);
            check_field(&before, &buf, pos0, 8, 0xC0 | blocks);
            assert_eq!(f, Some(blocks * 16384));
        }
        let mut rp = pos0;
        let back = (&buf[..], &mut rp).read_length_determinant(None, None).unwrap();
        assert_eq!(back, f.unwrap_or(n));
        assert_eq!(rp, pos);
    } else {
        let l = lb.unwrap_or(0);
        let u = ub.unwrap_or(i64::MAX as u64);
        let admissible = l <= n && n <= u;
        assert_eq!(r.is_ok(), admissible);
        if admissible {
            assert!(r.unwrap().is_none());
            if u < 65536 {
                // 11.9.4.1: constrained whole number
                let w = width(u - l);
                assert_eq!(pos, pos0 + w);
                check_field(&before, &buf, pos0, w, n - l);
            }
            let mut rp = pos0;
            assert_eq!((&buf[..], &mut rp).read_length_determinant(lb, ub).unwrap(), n);
            assert_eq!(rp, pos);
        } else {
            assert_eq!(pos, pos0);
            assert!(buf == before);
        }
    }
}

/// 14 / 23: enumeration and choice index
#[kani::proof]
#[kani::unwind(18)]
fn per_index() {
    let (before, pos0) = start();
    let mut buf = before;
    let mut pos = pos0;
    let (std, ext, idx): (u64, bool, u64) = (kani::any(), kani::any(), kani::any());
    kani::assume(std >= 1);
    let choice: bool = kani::any();
    let r = if choice {
        (&mut buf[..], &mut pos).write_choice_index(std, ext, idx)
    } else {
        (&mut buf[..], &mut pos).write_enumeration_index(std, ext, idx)
    };
    assert_eq!(r.is_ok(), ext || idx < std);
    if r.is_ok() {
        if idx < std {
            let w = width(std - 1);
            let e = if ext { 1 } else { 0 };
            assert_eq!(pos, pos0 + e + w);
            check_field(&before, &buf, pos0, e + w, idx);
        } else {
            assert!(bit_at(&buf, pos0));
        }
        let mut rp = pos0;
        let back = if choice {
            (&buf[..], &mut rp).read_choice_index(std, ext)
        } else {
            (&buf[..], &mut rp).read_enumeration_index(std, ext)
        };
        assert_eq!(back.unwrap(), idx);
        assert_eq!(rp, pos);
    } else {
        assert_eq!(pos, pos0);
        assert!(buf == before);
    }
}
