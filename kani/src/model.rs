//! C16 (tag order, SET sorting, implicit tags), C15 (integer type selection, cross-check of the Verus proof), C06 (charsets).
use asn1rs_model::asn::{Charset, Integer, Range, Size, Tag, TagProperty};
use asn1rs_model::generate::walker::verif_hooks::{assign_implicit_tags, sort_fields_canonically};
use asn1rs_model::rust::verif_hooks::{asn_extensible_integer_to_rust, asn_fixed_integer_to_rust_type};
use asn1rs_model::rust::{Field, RustType};
use core::cmp::Ordering;

fn any_tag() -> Tag {
    let class: u8 = kani::any();
    let value: usize = kani::any();
    match class % 4 {
        0 => Tag::Universal(value),
        1 => Tag::Application(value),
        2 => Tag::ContextSpecific(value),
        _ => Tag::Private(value),
    }
}

fn class_rank(t: &Tag) -> u8 {
    match t {
        Tag::Universal(_) => 0,
        Tag::Application(_) => 1,
        Tag::ContextSpecific(_) => 2,
        Tag::Private(_) => 3,
    }
}

/// X.680 8.6: UNIVERSAL < APPLICATION < context-specific < PRIVATE, then by number -- for ALL pairs of tags.
/// complete (loop free) on the compiled derive(Ord / PartialOrd / Eq).
#[kani::proof]
fn tag_order() {
    let a = any_tag();
    let b = any_tag();
    let want = (class_rank(&a), a.value()).cmp(&(class_rank(&b), b.value()));
    assert!(a.cmp(&b) == want);
    assert!(a.partial_cmp(&b) == Some(want));
    assert!((a == b) == (want == Ordering::Equal));
}

fn any_field(name: &str) -> Field {
    // types from a fixed pool (untagged builtin types and a tagged / untagged reference)
    let which: u8 = kani::any();
    let ty = match which % 5 {
        0 => RustType::Bool,
        1 => RustType::Null,
        2 => RustType::VecU8(Size::Any),
        3 => RustType::Complex(String::new(), Some(any_tag())),
        _ => RustType::U8(Range::inclusive(0, 255)),
    };
    let mut f = Field::from_name_type(name, ty);
    if kani::any() {
        f.set_tag(any_tag());
    }
    f
}

fn eff_tag(f: &Field) -> Tag {
    f.tag().or_else(|| f.r#type().tag()).unwrap()
}

const NAMES: [&str; 4] = ["a", "b", "c", "d"];

/// sort_fields_canonically: permutation of the input with the effective tag filled in, root before additions,
/// each group ascending.  BOUNDED: n <= 4 components (the property asks <= 5), symbolic tags and extension position.
#[kani::proof]
#[kani::unwind(6)]
fn set_sort_fields() {
    let n: usize = kani::any();
    kani::assume(n <= 4);
    let mut fields = Vec::new();
    let mut i = 0;
    while i < n {
        fields.push(any_field(NAMES[i]));
        i += 1;
    }
    let ext: Option<usize> = if kani::any() { let e: usize = kani::any(); kani::assume(e < 4); Some(e) } else { None };
    let sorted = sort_fields_canonically(&fields, ext);
    assert!(sorted.len() == n);
    // permutation: names are distinct, each output name occurs in the input with the same effective tag
    let is_ext = |name: &str| -> bool {
        let idx = NAMES.iter().position(|x| *x == name).unwrap();
        ext.map(|e| idx > e).unwrap_or(false)
    };
    let mut k = 0;
    while k < n {
        let f = &sorted[k];
        let idx = NAMES.iter().position(|x| *x == f.name()).unwrap();
        assert!(idx < n);
        assert!(f.tag() == Some(eff_tag(&fields[idx])));
        let mut j = 0;
        while j < k {
            assert!(sorted[j].name() != f.name());
            // order: (extension?, tag) ascending
            let a = (is_ext(sorted[j].name()), sorted[j].tag().unwrap());
            let b = (is_ext(f.name()), f.tag().unwrap());
            assert!(a <= b);
            j += 1;
        }
        k += 1;
    }
}

/// assign_implicit_tags: all-or-nothing rule of X.680 (automatic tags only when no component is tagged). BOUNDED n <= 4.
#[kani::proof]
#[kani::unwind(6)]
fn set_implicit_tags() {
    let n: usize = kani::any();
    kani::assume(n <= 4);
    let mut fields = Vec::new();
    let mut any_tagged = false;
    let mut i = 0;
    while i < n {
        let f = any_field(NAMES[i]);
        any_tagged |= f.tag().is_some();
        fields.push(f);
        i += 1;
    }
    let out = assign_implicit_tags(&fields);
    assert!(out.len() == n);
    let mut k = 0;
    while k < n {
        assert!(out[k].name() == fields[k].name());
        if any_tagged {
            assert!(out[k].tag() == fields[k].tag());
        } else {
            assert!(out[k].tag() == Some(Tag::ContextSpecific(k)));
        }
        k += 1;
    }
}

/// RustType::tag(): UNIVERSAL tags of X.680 table 8.6 for the builtin types
#[kani::proof]
fn rusttype_universal_tags() {
    assert!(RustType::Bool.tag() == Some(Tag::Universal(1)));
    assert!(RustType::U8(Range::inclusive(0, 1)).tag() == Some(Tag::Universal(2)));
    assert!(RustType::I64(Range::inclusive(0, 1)).tag() == Some(Tag::Universal(2)));
    assert!(RustType::BitVec(Size::Any).tag() == Some(Tag::Universal(3)));
    assert!(RustType::VecU8(Size::Any).tag() == Some(Tag::Universal(4)));
    assert!(RustType::Null.tag() == Some(Tag::Universal(5)));
    assert!(RustType::String(Size::Any, Charset::Utf8).tag() == Some(Tag::Universal(12)));
    assert!(RustType::String(Size::Any, Charset::Numeric).tag() == Some(Tag::Universal(18)));
    assert!(RustType::String(Size::Any, Charset::Printable).tag() == Some(Tag::Universal(19)));
    assert!(RustType::String(Size::Any, Charset::Ia5).tag() == Some(Tag::Universal(22)));
    assert!(RustType::String(Size::Any, Charset::Visible).tag() == Some(Tag::Universal(26)));
}

fn holds(t: &RustType, v: i128) -> bool {
    match t {
        RustType::U8(_) => v >= 0 && v <= u8::MAX as i128,
        RustType::U16(_) => v >= 0 && v <= u16::MAX as i128,
        RustType::U32(_) => v >= 0 && v <= u32::MAX as i128,
        RustType::U64(_) => v >= 0 && v <= u64::MAX as i128,
        RustType::I8(_) => v >= i8::MIN as i128 && v <= i8::MAX as i128,
        RustType::I16(_) => v >= i16::MIN as i128 && v <= i16::MAX as i128,
        RustType::I32(_) => v >= i32::MIN as i128 && v <= i32::MAX as i128,
        RustType::I64(_) => v >= i64::MIN as i128 && v <= i64::MAX as i128,
        _ => false,
    }
}

fn bits_and_sign(t: &RustType) -> (u8, bool) {
    match t {
        RustType::U8(_) => (8, false),
        RustType::U16(_) => (16, false),
        RustType::U32(_) => (32, false),
        RustType::U64(_) => (64, false),
        RustType::I8(_) => (8, true),
        RustType::I16(_) => (16, true),
        RustType::I32(_) => (32, true),
        RustType::I64(_) => (64, true),
        _ => (0, false),
    }
}

/// C15 on the compiled code, both bounds given (the case the contract is claimed for; an absent lower bound is KF-C15-min):
/// the chosen type holds every permitted value and no narrower type of the same signedness class does.  complete (loop free).
#[kani::proof]
#[kani::unwind(3)]
fn inttype_fixed_both_bounds() {
    let (min, max): (i64, i64) = (kani::any(), kani::any());
    kani::assume(min <= max);
    let int = Integer::with_range(Range(Some(min), Some(max), false));
    let t = asn_fixed_integer_to_rust_type(&int);
    core::mem::forget(int); // no drop glue (RustType is a recursive type)
    assert!(holds(&t, min as i128) && holds(&t, max as i128));
    let (bits, signed) = bits_and_sign(&t);
    assert!(bits != 0);
    assert!(signed == (min < 0));
    if bits > 8 {
        // the next narrower type of that signedness cannot hold both bounds
        let half = bits / 2;
        let (lo, hi): (i128, i128) = if signed { (-(1i128 << (half - 1)), (1i128 << (half - 1)) - 1) } else { (0, (1i128 << half) - 1) };
        assert!(!((min as i128) >= lo && (max as i128) <= hi));
    }
    core::mem::forget(t);
}

/// extensible ranges map to 64-bit types; I64 iff a negative value is permitted (lower bound given)
#[kani::proof]
#[kani::unwind(3)]
fn inttype_extensible() {
    let (min, max): (i64, i64) = (kani::any(), kani::any());
    kani::assume(min <= max);
    let int = Integer::with_range(Range(Some(min), Some(max), true));
    let t = asn_extensible_integer_to_rust(&int);
    core::mem::forget(int);
    let (bits, signed) = bits_and_sign(&t);
    assert!(bits == 64);
    assert!(signed == (min < 0));
    core::mem::forget(t);
}

/// C06: Charset::is_valid == the alphabets of X.680 clause 41 for ALL chars (complete, loop free)
#[kani::proof]
fn charset_is_valid() {
    let c: char = kani::any();
    let u = c as u32;
    assert!(Charset::Utf8.is_valid(c));
    assert!(Charset::Numeric.is_valid(c) == (c == ' ' || (u >= '0' as u32 && u <= '9' as u32)));
    let printable = (u >= 'A' as u32 && u <= 'Z' as u32) || (u >= 'a' as u32 && u <= 'z' as u32) || (u >= '0' as u32 && u <= '9' as u32)
        || c == ' ' || c == '\'' || c == '(' || c == ')' || c == '+' || c == ',' || c == '-' || c == '.' || c == '/' || c == ':' || c == '=' || c == '?';
    assert!(Charset::Printable.is_valid(c) == printable);
    assert!(Charset::Ia5.is_valid(c) == (u <= 127));
    assert!(Charset::Visible.is_valid(c) == (u >= 32 && u <= 126));
}
