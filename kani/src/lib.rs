//! Kani harnesses over the REAL compiled asn1rs crate (DESIGN.md 3.4).
//! Every harness checks an executable pre/post-condition pair with fully symbolic arguments.
//! `complete`: all loops bounded by operand width / constants of the code, unwinding assertions on.
#![allow(dead_code, unused_imports)]

#[cfg(kani)]
mod der;
#[cfg(kani)]
mod proto;
#[cfg(kani)]
mod per;
#[cfg(kani)]
mod model;
