//! C17: protobuf primitives, all values symbolic (complete: varint loops bounded by 10 bytes).
use asn1rs::protocol::protobuf::{Format, ProtoRead, ProtoWrite};

/// read_varint(write_varint(v)) == v for ALL u64; byte-exact LEB128 with <= 10 bytes
#[kani::proof]
#[kani::unwind(12)]
fn proto_varint_roundtrip() {
    let v: u64 = kani::any();
    let mut buf: Vec<u8> = Vec::new();
    buf.write_varint(v).unwrap();
    let n = buf.len();
    assert!(n >= 1 && n <= 10);
    // LEB128: 7 payload bits per byte, continuation bit on all but the last, minimal length
    let mut i = 0;
    while i < n {
        assert!(buf[i] & 0x7F == ((v >> (7 * i)) & 0x7F) as u8);
        assert!((buf[i] & 0x80 != 0) == (i + 1 < n));
        i += 1;
    }
    assert!(n == 10 || (v >> (7 * n)) == 0);
    assert!(n == 1 || (v >> (7 * (n - 1))) != 0);
    let mut rd = &buf[..];
    assert_eq!(rd.read_varint().unwrap(), v);
    assert_eq!(rd.len(), 0);
}

#[kani::proof]
#[kani::unwind(12)]
fn proto_sint64_roundtrip() {
    let v: i64 = kani::any();
    let mut buf: Vec<u8> = Vec::new();
    buf.write_sint64(v).unwrap();
    let mut rd = &buf[..];
    assert_eq!(rd.read_sint64().unwrap(), v);
    assert_eq!(rd.len(), 0);
}

#[kani::proof]
#[kani::unwind(12)]
fn proto_sint32_roundtrip() {
    let v: i32 = kani::any();
    let mut buf: Vec<u8> = Vec::new();
    buf.write_sint32(v).unwrap();
    let mut rd = &buf[..];
    assert_eq!(rd.read_sint32().unwrap(), v);
    assert_eq!(rd.len(), 0);
}

#[kani::proof]
#[kani::unwind(12)]
fn proto_uint32_bool_roundtrip() {
    let v: u32 = kani::any();
    let mut buf: Vec<u8> = Vec::new();
    buf.write_uint32(v).unwrap();
    let mut rd = &buf[..];
    assert_eq!(rd.read_uint32().unwrap(), v);
    assert_eq!(rd.len(), 0);
    let b: bool = kani::any();
    let mut buf: Vec<u8> = Vec::new();
    buf.write_bool(b).unwrap();
    let mut rd = &buf[..];
    assert_eq!(rd.read_bool().unwrap(), b);
    assert_eq!(rd.len(), 0);
}

/// field < 2^29, all four wire formats
#[kani::proof]
#[kani::unwind(12)]
fn proto_tag_roundtrip() {
    let field: u32 = kani::any();
    kani::assume(field < (1 << 29));
    let f: u8 = kani::any();
    let format = match f % 4 {
        0 => Format::VarInt,
        1 => Format::Fixed64,
        2 => Format::LengthDelimited,
        _ => Format::Fixed32,
    };
    let mut buf: Vec<u8> = Vec::new();
    buf.write_tag(field, format).unwrap();
    let mut rd = &buf[..];
    let (rf, rfmt) = rd.read_tag().unwrap();
    assert!(rf == field && rfmt == format);
    assert_eq!(rd.len(), 0);
}

#[kani::proof]
#[kani::unwind(12)]
fn proto_sfixed32_roundtrip() {
    let v: i32 = kani::any();
    let mut buf: Vec<u8> = Vec::new();
    buf.write_sfixed32(v).unwrap();
    assert!(buf.len() == 4);
    assert!(buf[0] == v as u8 && buf[3] == (v >> 24) as u8);
    let mut rd = &buf[..];
    assert_eq!(rd.read_sfixed32().unwrap(), v);
    assert_eq!(rd.len(), 0);
}

/// C04: protobuf primitive readers are total on every byte string (they consume at most 10 bytes)
#[kani::proof]
#[kani::unwind(12)]
fn proto_readers_total() {
    let data: [u8; 11] = kani::any();
    let len: usize = kani::any();
    kani::assume(len <= 11);
    let mut rd = &data[..len];
    let _ = rd.read_varint();
    let mut rd = &data[..len];
    let _ = rd.read_tag();
    let mut rd = &data[..len];
    let _ = rd.read_sint32();
    let mut rd = &data[..len];
    let _ = rd.read_sint64();
    let mut rd = &data[..len];
    let _ = rd.read_sfixed32();
    let mut rd = &data[..len];
    let _ = rd.read_bool();
}
