//! C20: DER primitives round trip; C04: DER primitive readers are total.
use asn1rs::model::asn::Tag;
use asn1rs::protocol::basic::{BasicRead, BasicWrite};

/// read_length(write_length(n)) == n for ALL u64, exact byte consumption.  complete: <= 9 bytes, loops bounded by 8.
#[kani::proof]
#[kani::unwind(10)]
fn der_length_roundtrip() {
    let n: u64 = kani::any();
    let mut buf: Vec<u8> = Vec::new();
    buf.write_length(n).unwrap();
    assert!(buf.len() <= 9);
    let mut rd = &buf[..];
    let m = rd.read_length().unwrap();
    assert_eq!(n, m);
    assert_eq!(rd.len(), 0);
}

/// all four classes x value < 64 (the property asks < 31)
#[kani::proof]
#[kani::unwind(4)]
fn der_identifier_roundtrip() {
    let class: u8 = kani::any();
    let value: usize = kani::any();
    kani::assume(value < 64);
    let tag = match class % 4 {
        0 => Tag::Universal(value),
        1 => Tag::Application(value),
        2 => Tag::ContextSpecific(value),
        _ => Tag::Private(value),
    };
    let mut buf: Vec<u8> = Vec::new();
    buf.write_identifier(tag).unwrap();
    assert_eq!(buf.len(), 1);
    let mut rd = &buf[..];
    let got = rd.read_identifier().unwrap();
    assert!(got == tag);
    assert_eq!(rd.len(), 0);
}

/// any non-zero octet is true; write/read round trip
#[kani::proof]
#[kani::unwind(4)]
fn der_boolean() {
    let octet: u8 = kani::any();
    let data = [octet];
    let mut rd = &data[..];
    assert_eq!(rd.read_boolean().unwrap(), octet != 0);
    assert_eq!(rd.len(), 0);
    let b: bool = kani::any();
    let mut buf: Vec<u8> = Vec::new();
    BasicWrite::write_boolean(&mut buf, b).unwrap();
    assert_eq!(buf.len(), 1);
    let mut rd = &buf[..];
    assert_eq!(BasicRead::read_boolean(&mut rd).unwrap(), b);
}

#[kani::proof]
#[kani::unwind(10)]
fn der_integer_i64_roundtrip() {
    let v: i64 = kani::any();
    let mut buf: Vec<u8> = Vec::new();
    buf.write_integer_i64(v).unwrap();
    assert!(buf.len() >= 1 && buf.len() <= 8);
    let len = buf.len() as u32;
    let mut rd = &buf[..];
    assert_eq!(rd.read_integer_i64(len).unwrap(), v);
    assert_eq!(rd.len(), 0);
}

#[kani::proof]
#[kani::unwind(10)]
fn der_integer_u64_roundtrip() {
    let v: u64 = kani::any();
    let mut buf: Vec<u8> = Vec::new();
    buf.write_integer_u64(v).unwrap();
    assert!(buf.len() >= 1 && buf.len() <= 8);
    let len = buf.len() as u32;
    let mut rd = &buf[..];
    assert_eq!(rd.read_integer_u64(len).unwrap(), v);
    assert_eq!(rd.len(), 0);
}

/// C04: the DER primitive readers return Ok or Err on every byte string (<= 10 bytes is all they can consume)
#[kani::proof]
#[kani::unwind(12)]
fn der_readers_total() {
    let data: [u8; 10] = kani::any();
    let len: usize = kani::any();
    kani::assume(len <= 10);
    let mut rd = &data[..len];
    let _ = rd.read_length();
    let mut rd = &data[..len];
    let _ = rd.read_identifier();
    let mut rd = &data[..len];
    let _ = BasicRead::read_boolean(&mut rd);
    let bl: u32 = kani::any();
    let mut rd = &data[..len];
    let _ = rd.read_integer_i64(bl);
    let mut rd = &data[..len];
    let _ = rd.read_integer_u64(bl);
}
