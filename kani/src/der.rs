//! C20: DER primitives round trip; C04: DER primitive readers are total.
use asn1rs::model::asn::Tag;
use asn1rs::protocol::basic::{BasicRead, BasicWrite};

/// read_length(write_length(n)) == n for ALL u64, exact byte consumption.  complete: <= 9 bytes, loops bounded by 8.
#[kani::proof]
#[kani::unwind(10)]
fn der_length_roundtrip() {
    let n: u64 = kani::any();
    let mut buf: Vec<u8> = Vec::new();
    buf.write_length(n).unwrap();
    assert!(buf.len() <= 9);
    let mut rd = &buf[..];
    let m = rd.read_length().unwrap();
    assert_eq!(n, m);
    assert_eq!(rd.len(), 0);
}

/// a reader that delivers at most ONE octet per `read` call (short reads are legal for `std::io::Read`): the primitives must not depend on
/// a single call filling the buffer
pub struct OneByte<'a>(pub &'a [u8]);
impl<'a> std::io::Read for OneByte<'a> {
    fn read(&mut self, buf: &mut [u8]) -> std::io::Result<usize> {
        if buf.is_empty() || self.0.is_empty() {
            return Ok(0);
        }
        buf[0] = self.0[0];
        self.0 = &self.0[1..];
        Ok(1)
    }
}

/// read_length(write_length(n)) == n for ALL u64 through the one-octet-per-call reader, exact consumption
#[kani::proof]
#[kani::unwind(10)]
fn der_length_short_reads() {
    let n: u64 = kani::any();
    let mut buf: Vec<u8> = Vec::new();
    buf.write_length(n).unwrap();
    let mut rd = OneByte(&buf[..]);
    let m = rd.read_length().unwrap();
    assert_eq!(n, m);
    assert_eq!(rd.0.len(), 0);
}

/// all four classes x value < 64 (the property asks < 31)
#[kani::proof]
#[kani::unwind(4)]
fn der_identifier_roundtrip() {
    let class: u8 = kani::any();
    let value: usize = kani::any();
    kani::assume(value < 64);
    let tag = match class % 4 {
        0 => Tag::Universal(value),
        1 => Tag::Application(value),
        2 => Tag::ContextSpecific(value),
        _ => Tag::Private(value),
    };
    let mut buf: Vec<u8> = Vec::new();
    buf.write_identifier(tag).unwrap();
    assert_eq!(buf.len(), 1);
    let mut rd = &buf[..];
    let got = rd.read_identifier().unwrap();
    assert!(got == tag);
    assert_eq!(rd.len(), 0);
}

/// any non-zero octet is true; write/read round trip
#[kani::proof]
#[kani::unwind(4)]
fn der_boolean() {
    let octet: u8 = kani::any();
    let data = [octet];
    let mut rd = &data[..];
    assert_eq!(rd.read_boolean().unwrap(), octet != 0);
    assert_eq!(rd.len(), 0);
    let b: bool = kani::any();
    let mut buf: Vec<u8> = Vec::new();
    BasicWrite::write_boolean(&mut buf, b).unwrap();
    assert_eq!(buf.len(), 1);
    let mut rd = &buf[..];
    assert_eq!(BasicRead::read_boolean(&mut rd).unwrap(), b);
}

#[kani::proof]
#[kani::unwind(10)]
fn der_integer_i64_roundtrip() {
    let v: i64 = kani::any();
    let mut buf: Vec<u8> = Vec::new();
    buf.write_integer_i64(v).unwrap();
    assert!(buf.len() >= 1 && buf.len() <= 8);
    let len = buf.len() as u32;
    let mut rd = &buf[..];
    assert_eq!(rd.read_integer_i64(len).unwrap(), v);
    assert_eq!(rd.len(), 0);
}

#[kani::proof]
#[kani::unwind(10)]
fn der_integer_u64_roundtrip() {
    let v: u64 = kani::any();
    let mut buf: Vec<u8> = Vec::new();
    buf.write_integer_u64(v).unwrap();
    assert!(buf.len() >= 1 && buf.len() <= 8);
    let len = buf.len() as u32;
    let mut rd = &buf[..];
    assert_eq!(rd.read_integer_u64(len).unwrap(), v);
    assert_eq!(rd.len(), 0);
}

/// C04: the DER primitive readers return Ok or Err on every byte string (<= 10 bytes is all they can consume)
#[kani::proof]
#[kani::unwind(12)]
fn der_readers_total() {
    let data: [u8; 10] = kani::any();
    let len: usize = kani::any();
    kani::assume(len <= 10);
    let mut rd = &data[..len];
    let _ = rd.read_length();
    let mut rd = &data[..len];
    let _ = rd.read_identifier();
    let mut rd = &data[..len];
    let _ = BasicRead::read_boolean(&mut rd);
    let bl: u32 = kani::any();
    let mut rd = &data[..len];
    let _ = rd.read_integer_i64(bl);
    let mut rd = &data[..len];
    let _ = rd.read_integer_u64(bl);
}

// ---- the TLV layer: BasicWriter / BasicReader (rw/der.rs) for the kinds it implements (number, enumerated, boolean)
use asn1rs::descriptor::{common, enumerated, numbers, Reader, Writer};
use asn1rs::rw::{BasicReader, BasicWriter};

pub struct En<const N: u64, const STD: u64, const EXT: bool>(pub u64);
impl<const N: u64, const STD: u64, const EXT: bool> common::Constraint for En<N, STD, EXT> {
    const TAG: Tag = Tag::DEFAULT_ENUMERATED;
}
impl<const N: u64, const STD: u64, const EXT: bool> enumerated::Constraint for En<N, STD, EXT> {
    const NAME: &'static str = "En";
    const VARIANT_COUNT: u64 = N;
    const STD_VARIANT_COUNT: u64 = STD;
    const EXTENSIBLE: bool = EXT;
    fn to_choice_index(&self) -> u64 {
        self.0
    }
    fn from_choice_index(index: u64) -> Option<Self> {
        if index < N { Some(En(index)) } else { None }
    }
}

fn enum_rt<const N: u64, const STD: u64, const EXT: bool>() {
    let idx: u64 = kani::any();
    kani::assume(idx < N);
    let mut w = BasicWriter::from(Vec::<u8>::new());
    w.write_enumerated(&En::<N, STD, EXT>(idx)).unwrap();
    let buf = w.into_inner();
    let mut r = BasicReader::from(&buf[..]);
    let back = r.read_enumerated::<En<N, STD, EXT>>();
    match back {
        Ok(v) => assert_eq!(v.0, idx),
        Err(_) => panic!("enumerated index written by the DER writer is not read back"),
    }
    assert_eq!(r.into_inner().len(), 0);
    std::mem::forget(buf);
}

/// the same type with a tag of its own ([APPLICATION 3] / [7] ENUMERATED): writer and reader must both use the TYPE's tag
pub struct EnT<const CLASS: u8>(pub u64);
impl<const CLASS: u8> common::Constraint for EnT<CLASS> {
    const TAG: Tag = match CLASS {
        0 => Tag::Application(3),
        1 => Tag::ContextSpecific(7),
        _ => Tag::Private(1),
    };
}
impl<const CLASS: u8> enumerated::Constraint for EnT<CLASS> {
    const NAME: &'static str = "EnT";
    const VARIANT_COUNT: u64 = 3;
    const STD_VARIANT_COUNT: u64 = 3;
    const EXTENSIBLE: bool = false;
    fn to_choice_index(&self) -> u64 {
        self.0
    }
    fn from_choice_index(index: u64) -> Option<Self> {
        if index < 3 { Some(EnT(index)) } else { None }
    }
}

fn enum_tagged_rt<const CLASS: u8>() {
    let idx: u64 = kani::any();
    kani::assume(idx < 3);
    let mut w = BasicWriter::from(Vec::<u8>::new());
    w.write_enumerated(&EnT::<CLASS>(idx)).unwrap();
    let buf = w.into_inner();
    let mut r = BasicReader::from(&buf[..]);
    match r.read_enumerated::<EnT<CLASS>>() {
        Ok(v) => assert_eq!(v.0, idx),
        Err(_) => panic!("a tagged ENUMERATED written by the DER writer is not read back by the reader of the same type"),
    }
    assert_eq!(r.into_inner().len(), 0);
    std::mem::forget(buf);
}

#[kani::proof]
#[kani::unwind(12)]
fn der_enumerated_tagged_roundtrip() {
    enum_tagged_rt::<0>();
    enum_tagged_rt::<1>();
}

/// every index of a plain and of an extensible ENUMERATED (root and additions) round trips through BasicWriter/BasicReader
#[kani::proof]
#[kani::unwind(12)]
fn der_enumerated_roundtrip() {
    enum_rt::<3, 3, false>();
    enum_rt::<5, 2, true>();
}

/// same with indices that need two and three content octets
#[kani::proof]
#[kani::unwind(12)]
fn der_enum_wide_roundtrip() {
    enum_rt::<300, 1, true>();
    enum_rt::<70000, 65000, true>();
}

pub struct I64C;
impl common::Constraint for I64C {
    const TAG: Tag = Tag::DEFAULT_INTEGER;
}
impl<T: numbers::Number> numbers::Constraint<T> for I64C {}

/// INTEGER TLV through BasicWriter/BasicReader for all i64 and all u64
#[kani::proof]
#[kani::unwind(12)]
fn der_number_tlv_roundtrip() {
    let v: i64 = kani::any();
    let mut w = BasicWriter::from(Vec::<u8>::new());
    w.write_number::<i64, I64C>(v).unwrap();
    let buf = w.into_inner();
    let mut r = BasicReader::from(&buf[..]);
    assert_eq!(r.read_number::<i64, I64C>().ok(), Some(v));
    assert_eq!(r.into_inner().len(), 0);
    std::mem::forget(buf);
    let u: u64 = kani::any();
    let mut w = BasicWriter::from(Vec::<u8>::new());
    w.write_number::<u64, I64C>(u).unwrap();
    let buf = w.into_inner();
    let mut r = BasicReader::from(&buf[..]);
    assert_eq!(r.read_number::<u64, I64C>().ok(), Some(u));
    assert_eq!(r.into_inner().len(), 0);
    std::mem::forget(buf);
}


fn narrow_rt<T: numbers::Number + PartialEq + kani::Arbitrary>() {
    let v: T = kani::any();
    let mut w = BasicWriter::from(Vec::<u8>::new());
    w.write_number::<T, I64C>(v).unwrap();
    let buf = w.into_inner();
    let mut r = BasicReader::from(&buf[..]);
    match r.read_number::<T, I64C>() {
        Ok(back) => assert!(back == v),
        Err(_) => panic!("a number written by the DER writer is not read back"),
    }
    assert_eq!(r.into_inner().len(), 0);
    std::mem::forget(buf);
}

/// INTEGER TLV for every value of the narrow Rust integer types the generator uses (they are widened to i64 by the writer)
#[kani::proof]
#[kani::unwind(12)]
fn der_number_narrow_roundtrip() {
    narrow_rt::<i8>();
    narrow_rt::<u8>();
    narrow_rt::<i16>();
    narrow_rt::<u16>();
    narrow_rt::<i32>();
    narrow_rt::<u32>();
}

/// quick-tier part of the narrow-width round trip: every i8 and u8
#[kani::proof]
#[kani::unwind(12)]
fn der_number_octet_roundtrip() {
    narrow_rt::<i8>();
    narrow_rt::<u8>();
}
