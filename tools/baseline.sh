#!/bin/bash
# Runs the repository's own test suite (guard OFF) and compares the passing set with BASELINE.json's stable_pass.
# usage: baseline.sh [repo_dir]   exit 0 iff every stable_pass test passed.
REPO=${1:-/repo}
cd "$REPO" || exit 2
export CARGO_NET_OFFLINE=true
OUT=$(mktemp)
cargo test --workspace --no-fail-fast --offline >"$OUT" 2>&1
python3 - "$OUT" <<'PY'
import sys, json, re
out = open(sys.argv[1]).read()
passed = set(); failed = set()
crate = None
for line in out.split('\n'):
    m = re.match(r'\s+Running (?:unittests )?(\S+) \(target/debug/deps/([A-Za-z0-9_]+)-[0-9a-f]+\)', line)
    if m:
        path, binname = m.group(1), m.group(2)
        if path.startswith('tests/'):
            crate = 'asn1rs::' + binname
        elif binname in ('asn1rs_model',):
            crate = 'asn1rs-model'
        elif binname in ('asn1rs_macros',):
            crate = 'asn1rs-macros'
        else:
            crate = 'asn1rs'
        continue
    m = re.match(r'test (\S+)(?: - should panic)? \.\.\. (ok|FAILED|ignored)', line)
    if m and crate:
        (passed if m.group(2) == 'ok' else failed).add(crate + '::' + m.group(1))
base = json.load(open('/root/.vp/BASELINE.json'))
stable = set(base['stable_pass'])
missing = sorted(stable - passed)
print('baseline: %d passed, %d failed, stable_pass %d, missing %d' % (len(passed), len(failed), len(stable), len(missing)))
for m in missing[:20]:
    print('  MISSING', m)
sys.exit(0 if not missing else 1)
PY
RC=$?
rm -f "$OUT"
exit $RC
