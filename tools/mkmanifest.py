#!/usr/bin/env python3
"""Regenerates /verif/MANIFEST.json from tools/props.py (single source of truth for the registered checks)."""
import json, os, sys
sys.path.insert(0, os.path.dirname(os.path.abspath(__file__)))
import props
VERIF = os.path.dirname(os.path.dirname(os.path.abspath(__file__)))

NOT_APPLICABLE = {
    'C07': 'model(parse(print(A))) == A needs a pretty-printer spec and an inversion proof of a hand-written recursive-descent parser over Peekable<Iterator<Token>>, String and str::parse; Verus rejects iterator adapters / str reasoning and Kani has no finite unwinding of a grammar (DESIGN.md section 8)',
    'C08': 'relates a codegen-crate string printer to a syn-based attribute parser inside a proc macro; both sides (text, syn::parse, quote!) are outside both verifiers (DESIGN.md section 8)',
    'C09': '"rustc accepts the generated file" is not a post-condition over any function of the repository; the generator is string emission (DESIGN.md section 8)',
    'C13': 'relational property of Tokenizer::parse over two unbounded texts; the function is a loop nest over str::lines/chars/enumerate/peekable which Verus cannot ingest, and a Kani run over strings of a few bytes would decide nothing (DESIGN.md section 8)',
    'C14': 'totality of tokenizer + parser + resolver + converters: the code is iterator/String/recursive-heap code outside the reach of Verus, and Kani does not terminate on it (measured: no verdict after 25 min / 10 GB on a one-definition module) (DESIGN.md section 8)',
    'C18': 'needs the generated .proto text to be valid proto3 and an independent protobuf decoder: differential testing, a different family; the .proto generator is string emission (DESIGN.md section 8)',
}
PENDING = {pid: 'check not built yet (work in progress in this session; see DESIGN.md section 6 for the planned contract)' for pid in
           []}

LEVEL_TEXT = {
    'C11': 'Every bit-level read/write/copy function of slice.rs and buffer.rs is verified by Verus against the naive bit-vector contract for all lengths, offsets, positions and contents (unbounded); histories follow by induction over the abstract view.',
    'C10': 'Every PackedWrite method is verified by Verus to emit exactly the X.691 bit pattern (spec functions transcribed from the standard) for all admissible arguments and to reject all others without writing; every PackedRead method against a functional decoder; unbounded in all arguments and lengths. Kani re-checks the fixed-width primitives on the compiled crate for all (lb, ub, v) (complete).',
    'C06': 'Post-condition r is Ok ==> admissible(args) proved by Verus for every PackedWrite entry point, with error kind and nothing written on rejection; Charset::is_valid proved equal to the X.680 alphabets for all chars (Kani, complete).',
    'C03': 'Verus proofs of the real Scope step functions against functional contracts plus driver lemmas for any number of components and any presence pattern (stronger than the N <= 5 the property asks for). Unit uper: write_sequence/read_sequence, write_opt/read_opt, write_default/read_default of the real Writer/Reader impl start from and step through exactly the scopes the drivers reason about. Unit glue: the code the real proc macros emit for three zoo schemas (53 generated types) is verified to call the protocol once per component with constants consistent with the code and equal to the values derived by hand from the schema (bounded in programs, unbounded in values); for other schemas that contract stays a named assumption.',
    'C05': 'Verus proof of the reader step/driver for an arbitrary transmitted addition count versus the local count; skip_unknown_extension_additions (repair 1f34165) verified to terminate and to consume every unknown present addition; open types end exactly at their announced end; generated read_seq of the zoo verified against the glue contract (unit glue).',
    'C12': 'Verus proof of the resolution step (the four real Resolver impls) for all names and values, with the scope search abstracted to an uninterpreted lookup (named assumption): partial decision of the property, stated as such.',
    'C15': 'Verus proof over all (min, max) of the real selection functions (complete, loop free) plus a Kani re-check on the compiled code; absent lower bound is a recorded known finding.',
    'C01': 'Layered: Verus proves (unbounded) the bit layer, every PER primitive pair with spec-level round-trip lemmas relative to arbitrary prefix/tail, the SEQUENCE presence protocol, the open-type wrapping, and in unit uper the real Writer/Reader impl and descriptor impls against compositional trait-level specs x_enc/x_dec with round-trip lemmas for Boolean/Integer/Enumerated/Option/Default; unit glue verifies the real macro output of a zoo of 53 generated types against the contracts assumed of generated code (protocol discipline, CHOICE dispatch, ENUMERATED and INTEGER round-trip theorems per generated type) -- not payload equality of generated SEQUENCEs, which together with all other schemas is covered by bounded stand-ins on real macro output (labelled, not counted). Three known findings for sizes >= 16K.',
    'C02': 'Layered: bit-exact equality with X.691 spec functions is a Verus post-condition of every primitive writer, of the sequence/open-type machinery and of the API-level writers/descriptor impls for every constraint instantiation (compositional x_enc; unbounded, inside the profile); Kani re-checks fixed-width primitives; the constants emitted by the generator are checked for consistency on a zoo (unit glue) and the bit-exact composition of whole generated types is covered by a bounded zoo against hand-composed reference encodings (labelled).',
    'C04': 'Verus proves panic freedom, termination, cursor-in-bounds and the input frame on Ok and on Err for every function of the bit layer, the PER layer, the UPER scope/open-type helpers and 17 of the 19 methods of impl Reader for UperReader (for every constraint instantiation), and allocation bounds for the payload readers; Kani proves the DER/protobuf primitives total. Two string readers, ProtobufReader and the generated glue are outside the contracts (named), covered by a sampled search only.',
    'C19': 'The real reader helpers are verified by Verus in both feature configurations against one functional contract; every cfg-gated site is decided on every run by an ownership-based syntactic frame rule or by the dual verification; a differential trace of both builds is the counterexample engine.',
    'C20': 'Kani complete proofs (no unbounded loop, unwinding assertions on) over all u64 lengths, all tags class x number < 64, all octets, all i64/u64 values.',
    'C17': 'Kani complete proofs for the protobuf primitives over all values; the composite reader/writer state machine is not decided (named in the evidence).',
    'C16': 'Kani complete proof that the compiled Tag ordering equals X.680 8.6 for all tag pairs, and of the UNIVERSAL tags of the builtin types; Verus on the real macro output of a zoo (bounded in programs): every generated SET visits its components in canonical order of the generated tags, root before additions, and in the order worked out by hand from the schema; the sort call and tag resolution themselves are named as not under contract (bounded stand-in).',
}

def main():
    m = {
        'version': 1,
        'setup_cmd': 'cd /verif && ./check setup',
        'hooks': {'guard': 'cargo feature verif-hooks of asn1rs-model (off by default)',
                  'enable': 'the Kani harness crate /verif/kani depends on asn1rs-model with features = ["verif-hooks"]',
                  'baseline_off_cmd': '/verif/tools/baseline.sh /repo',
                  'source_commits': ['afead0f'], 'add_only': True},
        'engines': [
            {'name': 'verus', 'path': '/verif/tools/extract.py + /verif/contracts', 'serves_properties': sorted(k for k, v in props.PROPS.items() if v.get('verus')),
             'kind_free_text': 'Verus on functions extracted mechanically from /repo on every run, contracts from sidecar files'},
            {'name': 'kani', 'path': '/verif/kani', 'serves_properties': sorted(k for k, v in props.PROPS.items() if v.get('kani_quick') or v.get('kani_thorough')),
             'kind_free_text': 'Kani/CBMC harnesses over the real compiled crate with fully symbolic arguments'},
            {'name': 'replay', 'path': '/verif/replay', 'serves_properties': sorted(props.PROPS.keys()),
             'kind_free_text': 'counterexample engine only: directed concrete search and replay against the real crate; never decides a property'},
        ],
        'checks': [],
        'not_applicable': [],
        'notes': 'Technique family: contract-based deductive verification of the real code. Exit 2 of a check means undecided (anchor lost, tool limit), never a violation.',
    }
    for pid in sorted(props.PROPS.keys()):
        cfg = props.PROPS[pid]
        engines = []
        if cfg.get('verus'):
            engines.append('verus')
        if cfg.get('kani_quick') or cfg.get('kani_thorough'):
            engines.append('kani')
        m['checks'].append({
            'property_id': pid,
            'quick_cmd': './check %s --tier quick' % pid,
            'thorough_cmd': './check %s --tier thorough' % pid,
            'evidence_file': '/verif/evidence/%s.json' % pid,
            'replay_cmd_template': './check replay {path}',
            'engine': '+'.join(engines),
            'level_claimed': {'category': 'proof', 'text': LEVEL_TEXT.get(pid, cfg.get('explanation', '')), 'design_ref': 'DESIGN.md section 6, %s' % pid},
            'level_note': '; '.join(cfg.get('assumptions', []))[:1800] or 'see evidence file',
            'technique': cfg.get('technique', 'contract-based deductive verification: ' + ' + '.join(
                (['Verus on mechanically extracted functions'] if 'verus' in engines else []) + (['Kani function-level harnesses on the compiled crate'] if 'kani' in engines else []))),
        })
    for pid, reason in sorted(NOT_APPLICABLE.items()):
        m['not_applicable'].append({'property_id': pid, 'reason': reason})
    for pid, reason in sorted(PENDING.items()):
        if pid not in props.PROPS:
            m['not_applicable'].append({'property_id': pid, 'reason': reason})
    json.dump(m, open(os.path.join(VERIF, 'MANIFEST.json'), 'w'), indent=1)
    print('MANIFEST.json: %d checks, %d not applicable' % (len(m['checks']), len(m['not_applicable'])))

if __name__ == '__main__':
    main()
