#!/bin/bash
# usage: seedvalidate.sh <worktree> <seed-dir>   -- confirm a seeded change: suite passes with it, demo fails with it, demo passes without it
WT=$1; SD=$2
cd "$WT" || exit 2
git checkout -q -- . ; rm -f tests/demo.rs
git apply --check "$SD/patch.diff" || { echo "PATCH DOES NOT APPLY"; exit 2; }
git apply "$SD/patch.diff"
/verif/tools/baseline.sh "$WT" > /tmp/seedval_suite.txt 2>&1; SUITE=$?
cp "$SD/demo.rs" tests/demo.rs
CARGO_NET_OFFLINE=true cargo test --offline $DEMO_ARGS --test demo > /tmp/seedval_demo_with.txt 2>&1; WITH=$?
git checkout -q -- .
CARGO_NET_OFFLINE=true cargo test --offline $DEMO_ARGS --test demo > /tmp/seedval_demo_without.txt 2>&1; WITHOUT=$?
rm -f tests/demo.rs
echo "suite_with_change_rc=$SUITE ($(tail -1 /tmp/seedval_suite.txt)) demo_with_change_rc=$WITH demo_without_change_rc=$WITHOUT"
[ $SUITE -eq 0 ] && [ $WITH -ne 0 ] && [ $WITHOUT -eq 0 ] && echo CONFIRMED || echo NOT-CONFIRMED
