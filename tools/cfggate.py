"""C19 side condition: a syntactic frame rule over every piece of code gated by the feature `descriptive-deserialize-errors`.

A gated site is ACCEPTED when its text can, by Rust's ownership rules alone, touch nothing but the diagnostics record:
  S-field   a struct field / struct-literal initialiser / fn parameter / call argument that is the record itself
            (`scope_description`, `descriptions`, `description`, `&mut self.scope_description`)
  S-push    `<record>.push(<expr>)` where <expr> has no `?`, return, break, continue, `&mut`, assignment or `unsafe`
  S-ifpush  `if <cond> { S-push* }` with <cond> under the same restrictions
  S-maperr  `let v = v.map_err(|mut e| { e.<...> = core::mem::take(&mut self.scope_description); e });` (only the error value changes)
  S-item    a whole item (enum ScopeDescription, mod scope_description_impl, derive attribute) -- scanned for `unsafe`, `static mut`,
            Cell/RefCell, and panicking constructs
Anything else is NOT accepted and must be decided by the Verus ON-variant of the enclosing function (or the check is undecided).
The rule needs no execution: an accepted statement receives no `&mut` path to the bit cursor or the scope, so it cannot change them, and
without `?`/return/break/continue it cannot change control flow.
"""
import json
import os
import re
import sys

sys.path.insert(0, os.path.dirname(os.path.abspath(__file__)))
import rustlex

FEATURE = 'descriptive-deserialize-errors'
RECORDS = ('self.scope_description', 'r.scope_description', 'descriptions')
FILES = ['src/rw/uper.rs', 'src/protocol/per/err.rs']
FORBIDDEN = {'?', 'return', 'break', 'continue', 'unsafe', 'loop', 'while', 'for'}


def sig_text(toks):
    return ' '.join(t.text for t in toks)


def stmt_end(sig, i):
    """index one past the statement/expr starting at sig[i] (ends at `;` or `,` at same depth, or matching `}` of an if/block)."""
    d = sig[i].depth
    j = i
    if sig[i].text == 'if':
        # if <cond> { ... } [else { ... }]
        while not (sig[j].text == '{' and sig[j].depth == d):
            j += 1
        j = sig[j].match + 1
        while j < len(sig) and sig[j].text == 'else':
            while sig[j].text != '{':
                j += 1
            j = sig[j].match + 1
        return j
    while j < len(sig):
        t = sig[j]
        if t.depth == d and t.text in (';', ','):
            return j + 1
        if t.depth < d:
            return j
        if t.text in '([{' and t.match > j:
            j = t.match + 1
            continue
        j += 1
    return j


def no_forbidden(toks, allow_mut_record=False):
    txt = [t.text for t in toks]
    for k, t in enumerate(txt):
        if t in FORBIDDEN:
            return 'contains `%s`' % t
        if t == '&' and k + 1 < len(txt) and txt[k + 1] == 'mut':
            rest = ''.join(txt[k + 2:k + 5])
            if allow_mut_record and rest == 'self.scope_description':
                continue
            return 'takes `&mut`'
        if t == '=' and txt[k - 1] not in ('=', '!', '<', '>', '+', '-', '*', '/', '|', '&', '^', '%') and (k + 1 >= len(txt) or txt[k + 1] not in ('=', '>')):
            return 'contains an assignment'
        if t == '=' and txt[k - 1] in ('+', '-', '*', '/', '|', '&', '^', '%'):
            return 'contains a compound assignment'
    return None


def is_push(toks):
    """<record> . push ( expr ) [;]"""
    txt = ''.join(t.text for t in toks)
    for r in RECORDS:
        if txt.startswith(r + '.push('):
            inner_start = None
            # locate the `(` of push
            for k, t in enumerate(toks):
                if t.text == 'push':
                    inner_start = k + 1
                    break
            close = None
            depth = 0
            for k in range(inner_start, len(toks)):
                if toks[k].text == '(':
                    depth += 1
                elif toks[k].text == ')':
                    depth -= 1
                    if depth == 0:
                        close = k
                        break
            tail = [t.text for t in toks[close + 1:]]
            if tail not in ([], [';']):
                return 'trailing code after push(...)'
            why = no_forbidden(toks[inner_start + 1:close])
            return why or True
    return None


def classify(src, i):
    """classify the gated thing starting at sig index i (first token after the attribute)."""
    sig = src.sig
    j = stmt_end(sig, i)
    toks = sig[i:j]
    txt = ''.join(t.text for t in toks)
    first = toks[0].text
    if re.match(r'^(pub(\(crate\))?)?(scope_description|descriptions|description):', txt):
        return 'S-field', True, txt[:60]
    if first in ('pub', 'enum', 'mod', 'struct', 'impl', 'use', 'fn') or (first == '#'):
        if first == '#':
            return 'S-item', True, 'attribute'
        # whole item: find its end (brace block or `;`)
        k = i
        while sig[k].text not in ('{', ';'):
            k += 1
        end = sig[k].match + 1 if sig[k].text == '{' else k + 1
        body = [t.text for t in sig[i:end]]
        bad = [w for w in ('unsafe', 'static', 'Cell', 'RefCell', 'UnsafeCell', 'Mutex', 'panic', 'unwrap', 'expect', 'unreachable', 'todo', 'unimplemented') if w in body]
        if 'static' in bad:
            # `&'static str` is fine: only `static` as an item keyword counts
            idxs = [q for q, w in enumerate(body) if w == 'static']
            if all(body[q - 1] == "'" or body[q - 1].endswith("'") or sig[i + q].kind == 'lt' for q in idxs):
                bad.remove('static')
        if bad:
            return 'S-item', 'item contains %s' % ', '.join(bad), ' '.join(body[:4])
        return 'S-item', True, ' '.join(body[:4])
    # field / parameter / argument forms
    if re.match(r'^(pub(\(crate\))?)?(scope_description|descriptions|description):', txt):
        return 'S-field', True, txt[:60]
    if txt in ('descriptions,', '&mutself.scope_description,', 'descriptions', '&mutself.scope_description'):
        return 'S-field', True, txt
    p = is_push(toks)
    if p is True:
        return 'S-push', True, txt[:60]
    if p:
        return 'S-push', p, txt[:60]
    if first == 'if':
        # cond
        k = 0
        while not (toks[k].text == '{' and toks[k].depth == toks[0].depth):
            k += 1
        why = no_forbidden(toks[1:k])
        if why:
            return 'S-ifpush', 'condition ' + why, txt[:60]
        if 'else' in [t.text for t in toks if t.depth == toks[0].depth]:
            return 'S-ifpush', 'has else branch', txt[:60]
        # body statements
        q = i + k + 1
        end = sig[i + k].match
        while q < end:
            e = stmt_end(sig, q)
            pp = is_push(sig[q:e])
            if pp is not True:
                return 'S-ifpush', 'body statement is not a push onto the record (%s)' % (pp or 'other form'), txt[:60]
            q = e
        return 'S-ifpush', True, txt[:60]
    m = re.match(r'^let(\w+)=(\w+)\.map_err\(\|mute\|\{e\.0\.description=core::mem::take\(&mutself\.scope_description\);e\}\);$', txt)
    if m and m.group(1) == m.group(2):
        return 'S-maperr', True, txt[:60]
    return 'other', 'form not covered by the frame rule', txt[:80]


def enclosing_fn(src, pos):
    best = None
    for it in rustlex.top_items(src):
        if it.start <= pos < it.end:
            if it.kind == 'fn':
                return it.name
            if it.kind in ('impl', 'trait', 'mod'):
                for sub in rustlex.block_items(src, it):
                    if sub.start <= pos < sub.end and sub.kind == 'fn':
                        return '%s :: %s' % (rustlex.norm_ws(it.header) if hasattr(it, 'header') else it.name, sub.name)
                return it.name
            best = it.name
    return best


def scan(repo):
    sites = []
    for f in FILES:
        path = os.path.join(repo, f)
        if not os.path.exists(path):
            sites.append({'file': f, 'line': 0, 'kind': 'missing', 'accepted': False, 'why': 'file not found', 'fn': None, 'text': ''})
            continue
        src = rustlex.Source(f, open(path).read())
        sig = src.sig
        for i, t in enumerate(sig):
            if t.text == '#' and sig[i + 1].text == '[' and sig[i + 2].text in ('cfg', 'cfg_attr'):
                close = sig[i + 1].match
                inner = ''.join(x.text for x in sig[i + 2:close])
                if FEATURE not in inner:
                    continue
                if sig[i + 2].text == 'cfg_attr':
                    ok = bool(re.match(r'^cfg_attr\(feature="%s",derive\([A-Za-z, ]*\)\)$' % FEATURE, inner.replace(' ', '')))
                    sites.append({'file': f, 'line': src.line_of(t.start), 'kind': 'S-item', 'accepted': ok, 'why': None if ok else 'cfg_attr other than derive', 'fn': None, 'text': inner[:60]})
                    continue
                if inner.replace(' ', '') != 'cfg(feature="%s")' % FEATURE:
                    sites.append({'file': f, 'line': src.line_of(t.start), 'kind': 'other', 'accepted': False, 'why': 'compound cfg predicate: ' + inner, 'fn': None, 'text': inner[:60]})
                    continue
                kind, ok, text = classify(src, close + 1)
                fn_ = enclosing_fn(src, t.start) or ''
                if ok is not True and re.search(r'fmt::(Display|Debug) *for .* :: fmt$', fn_):
                    kind, ok = 'S-display', True     # formats an already returned error; not on the decode path
                sites.append({'file': f, 'line': src.line_of(t.start), 'kind': kind, 'accepted': ok is True, 'why': None if ok is True else ok,
                              'fn': enclosing_fn(src, t.start), 'text': text})
            # cfg!(feature = "...") expression form would be a run-time branch: never accepted
            if t.text == 'cfg' and sig[i + 1].text == '!' and FEATURE in ''.join(x.text for x in sig[i + 2:sig[i + 2].match + 1]):
                sites.append({'file': f, 'line': src.line_of(t.start), 'kind': 'other', 'accepted': False, 'why': 'cfg!() run-time branch', 'fn': enclosing_fn(src, t.start), 'text': 'cfg!(..)'})
    return sites


if __name__ == '__main__':
    repo = sys.argv[1] if len(sys.argv) > 1 else '/repo'
    s = scan(repo)
    for x in s:
        print('%-26s %5d %-9s %-5s %s  | %s %s' % (x['file'], x['line'], x['kind'], 'ok' if x['accepted'] else 'NO', x['fn'], x['text'], ('<- ' + x['why']) if x['why'] else ''))
    print(len(s), 'sites,', sum(1 for x in s if not x['accepted']), 'not accepted')
