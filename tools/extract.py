#!/usr/bin/env python3
"""Mechanical extraction of real functions from /repo into single-file Verus crates.

usage: extract.py <unit.spec> [--repo /repo] [--out gen/] [--feature NAME]... [--canary FN] [--known-off]

The generated file consists of
  * text copied verbatim from the repository (functions, types, constants),
  * text inserted from the sidecar (contracts, invariants, ghost code, prelude),
  * applications of the closed list of rewrite rules (see DESIGN.md 3.1), each logged.
A map file (<unit>.map.json) records every source span (path, lines, sha256) and every
edit, and the tool re-assembles the original source span from its own piece list and
compares it byte-for-byte with the repository text (self-check).  Exit codes: 0 ok,
2 anchor lost / spec error / self-check failure.
"""
import sys, os, re, json, hashlib, argparse
sys.path.insert(0, os.path.dirname(os.path.abspath(__file__)))
from rustlex import Source, top_items, block_items, norm_ws, Item

VERIF = os.path.dirname(os.path.dirname(os.path.abspath(__file__)))


class AnchorLost(Exception):
    pass


class SpecError(Exception):
    pass


# --------------------------------------------------------------------------
# sidecar parsing
# --------------------------------------------------------------------------

class FnSpec:
    def __init__(self, name):
        self.name = name
        self.assumed = False
        self.ret = 'r'
        self.requires = []      # list of (text, known_id or None)
        self.ensures = []
        self.decreases = None
        self.loops = {}
        self.ghosts = []        # (anchor, text)
        self.closures = {}      # k -> {'header': str, 'spec': str}
        self.rewrites = set()
        self.attrs = []         # extra attributes (e.g. verifier::rlimit)
        self.noret = False
        self.line = 0


class Block:
    def __init__(self, kind, file, header):
        self.kind = kind        # 'trait' | 'impl'
        self.file = file
        self.header = header
        self.extra = ''
        self.fns = []
        self.all = False
        self.assumed_all = False
        self.header_rewrite = None
        self.drop_members = []


class Unit:
    def __init__(self):
        self.name = None
        self.flags = []
        self.entries = []       # ordered
        self.macros = []        # (file, [names])
        self.outside = []
        self.features = []
        self.rlimit = None
        self.defines = {}


def parse_spec(path, seen=None):
    """Parse a sidecar file into a Unit."""
    unit = Unit()
    _parse_into(unit, path, seen or set(), assumed=False)
    return unit


def _parse_into(unit, path, seen, assumed):
    if path in seen:
        raise SpecError('recursive @include of ' + path)
    seen = seen | {path}
    lines = open(path).read().split('\n')
    cur_block = None
    cur_fn = None
    cur_section = None   # (kind, key) receiving continuation lines
    buf = []

    def flush():
        nonlocal buf, cur_section
        if cur_section is None:
            buf = []
            return
        text = '\n'.join(buf).rstrip()
        kind = cur_section[0]
        if kind == 'requires':
            cur_fn.requires.append((text, cur_section[1]))
        elif kind == 'ensures':
            cur_fn.ensures.append((text, cur_section[1]))
        elif kind == 'decreases':
            cur_fn.decreases = text
        elif kind == 'loop':
            cur_fn.loops[cur_section[1]] = text
        elif kind == 'ghost':
            cur_fn.ghosts.append((cur_section[1], text))
        elif kind == 'closure':
            k, what = cur_section[1]
            c = cur_fn.closures.setdefault(k, {'header': None, 'spec': ''})
            if what == 'header':
                c['header'] = text.strip()
            else:
                c['spec'] += text + '\n'
        elif kind == 'extra':
            cur_block.extra += text + '\n'
        elif kind == 'raw':
            unit.entries.append(('raw', text, path))
        elif kind == 'outside':
            unit.outside.append(text)
        buf = []
        cur_section = None

    for ln, line in enumerate(lines, 1):
        if line.startswith('@@'):       # escaped literal '@' line
            buf.append(line[1:])
            continue
        if not line.startswith('@'):
            buf.append(line)
            continue
        flush()
        parts = line.split(None, 1)
        tag = parts[0]
        rest = parts[1].strip() if len(parts) > 1 else ''
        rest_nc = re.sub(r'\s+#\s.*$', '', rest)
        if tag == '@unit':
            if unit.name is None:
                unit.name = rest_nc
        elif tag == '@define':
            m = re.match(r'(\w+)\s*=\s*(.*)$', rest)
            unit.defines[m.group(1)] = m.group(2)
        elif tag == '@flags':
            unit.flags += rest_nc.split()
        elif tag == '@include':
            m = re.match(r'(assumed\s+)?(\S+)', rest_nc)
            sub = os.path.join(os.path.dirname(path), m.group(2))
            _parse_into(unit, sub, seen, assumed or bool(m.group(1)))
            cur_block = None
            cur_fn = None
        elif tag == '@prelude':
            for f in rest_nc.split():
                unit.entries.append(('prelude', f))
        elif tag == '@raw-file':
            unit.entries.append(('raw-file', rest_nc.strip()))
        elif tag == '@expect':
            # @expect <file> :: <text>  -- the (whitespace-normalised) text must occur in that file of the current tree, else the anchor is lost:
            # ties a hand-expanded stand-in (e.g. of a macro_rules body) to the source it stands for, on every run
            file, text = [x.strip() for x in rest_nc.split('::', 1)]
            unit.entries.append(('expect', file, text))
        elif tag == '@prelude-if':
            feat, f = rest_nc.split()
            unit.entries.append(('prelude-if', feat, f))
        elif tag == '@macros':
            file, names = [x.strip() for x in rest_nc.split('::')]
            unit.macros.append((file, names.split()))
        elif tag == '@const':
            file, names = [x.strip() for x in rest_nc.split('::')]
            unit.entries.append(('const', file, names.split()))
        elif tag == '@item':
            file, what = [x.strip() for x in rest_nc.split('::', 1)]
            unit.entries.append(('item', file, what))
        elif tag in ('@trait', '@impl'):
            file, header = [x.strip() for x in rest_nc.split('::', 1)]
            cur_block = Block(tag[1:], file, header)
            cur_block.assumed_all = assumed
            unit.entries.append(('block', cur_block))
            cur_fn = None
        elif tag == '@all':
            cur_block.all = True
        elif tag == '@header':
            cur_block.header_rewrite = rest
        elif tag == '@drop-member':
            cur_block.drop_members.append(tuple(rest_nc.split()))
        elif tag == '@extra':
            cur_section = ('extra', None)
        elif tag == '@free':
            # free function: @free <file> :: <fn name>
            file, name = [x.strip() for x in rest_nc.split('::', 1)]
            m = re.match(r'(\S+)(\s+assumed)?', name)
            cur_fn = FnSpec(m.group(1))
            cur_fn.assumed = bool(m.group(2)) or assumed
            cur_fn.line = ln
            cur_block = None
            unit.entries.append(('free', file, cur_fn))
        elif tag == '@fn':
            m = re.match(r'(\S+)(\s+assumed|\s+trusted)?', rest_nc)
            cur_fn = FnSpec(m.group(1))
            cur_fn.assumed = bool(m.group(2)) or assumed
            # `trusted`: the body is outside the verifier's subset in EVERY unit; the contract is an assumption of the check (reported as such)
            cur_fn.trusted = bool(m.group(2)) and m.group(2).strip() == 'trusted'
            cur_fn.line = ln
            if cur_block is None:
                raise SpecError('%s:%d @fn outside @trait/@impl' % (path, ln))
            cur_block.fns.append(cur_fn)
        elif tag == '@ret':
            cur_fn.ret = rest_nc
        elif tag == '@attr':
            cur_fn.attrs.append(rest)
        elif tag in ('@requires', '@ensures'):
            m = re.match(r'known\s+(\S+)', rest_nc)
            cur_section = (tag[1:], m.group(1) if m else None)
        elif tag == '@decreases':
            cur_section = ('decreases', None)
            if rest:
                buf.append(rest)
        elif tag == '@loop':
            cur_section = ('loop', int(rest_nc))
        elif tag == '@ghost':
            cur_section = ('ghost', rest)
        elif tag == '@closure':
            m = re.match(r'(\d+)\s+(header|spec)\s*(.*)$', rest)
            cur_section = ('closure', (int(m.group(1)), m.group(2)))
            if m.group(3):
                buf.append(m.group(3))
        elif tag == '@rewrite':
            cur_fn.rewrites |= set(rest_nc.split())
        elif tag == '@raw':
            cur_section = ('raw', None)
        elif tag == '@outside':
            cur_section = ('outside', None)
        elif tag == '@end':
            pass
        elif tag == '@#':
            pass
        else:
            raise SpecError('%s:%d unknown tag %s' % (path, ln, tag))
    flush()


def expand_macros(text, defines, depth=0):
    """Textual sidecar macros: `$name(arg1, arg2)` -> body with $1, $2 replaced (arguments parenthesised)."""
    if depth > 8:
        raise SpecError('macro expansion too deep')
    out = []
    i = 0
    while True:
        m = re.compile(r'\$([A-Za-z_]\w*)\(').search(text, i)
        if not m:
            out.append(text[i:])
            break
        name = m.group(1)
        if name == 'KF':
            # parse args, return cond or true
            j = m.end(); d = 1; cur = j; args = []
            while d > 0:
                c = text[j]
                if c in '([{':
                    d += 1
                elif c in ')]}':
                    d -= 1
                    if d == 0:
                        args.append(text[cur:j].strip()); break
                elif c == ',' and d == 1:
                    args.append(text[cur:j].strip()); cur = j + 1
                j += 1
            KF_USED.add(args[0])
            out.append(text[i:m.start()])
            out.append('(true)' if KNOWN_OFF[0] else '(' + args[1] + ')')
            i = j + 1
            continue
        if name not in defines:
            raise SpecError('unknown sidecar macro $%s' % name)
        out.append(text[i:m.start()])
        # parse balanced args
        j = m.end()
        d = 1
        args = []
        cur = j
        while d > 0:
            c = text[j]
            if c in '([{':
                d += 1
            elif c in ')]}':
                d -= 1
                if d == 0:
                    args.append(text[cur:j].strip())
                    break
            elif c == ',' and d == 1:
                args.append(text[cur:j].strip())
                cur = j + 1
            j += 1
        body = defines[name]
        for k, a in enumerate(args, 1):
            a2 = expand_macros(a, defines, depth + 1)
            body = body.replace('$%d' % k, a2 if re.match(r'^[\w.()@]+$', a2) and not a2.startswith('&') and not a2.startswith('*') else '(' + a2 + ')')
        out.append('(' + expand_macros(body, defines, depth + 1) + ')')
        i = j + 1
    return ''.join(out)


# --------------------------------------------------------------------------
# piece list
# --------------------------------------------------------------------------

DEFINES = {}
KF_USED = set()
KNOWN_OFF = [False]


class Pieces:
    """Ordered pieces for one extracted source span [start,end)."""

    def __init__(self, src, start, end, what):
        self.src = src
        self.start = start
        self.end = end
        self.what = what
        self.edits = []     # (start, end, text, kind, rule, note)

    def insert(self, pos, text, note=''):
        self.edits.append((pos, pos, expand_macros(text, DEFINES), 'insert', '', note))

    def rewrite(self, s, e, text, rule, note=''):
        self.edits.append((s, e, text, 'rewrite', rule, note))

    def drop(self, s, e, rule, note=''):
        self.edits.append((s, e, '', 'drop', rule, note))

    def render(self):
        """returns (text, log). Performs the self-check."""
        text = self.src.text
        # stable sort: by start, inserts at same position keep order of registration;
        # an insert at position p sorts before a rewrite starting at p
        order = sorted(range(len(self.edits)), key=lambda i: (self.edits[i][0], 0 if self.edits[i][0] == self.edits[i][1] else 1, i))
        out = []
        recon = []
        log = []
        pos = self.start
        for i in order:
            s, e, new, kind, rule, note = self.edits[i]
            if s < pos:
                raise SpecError('overlapping edits in %s at %s:%d (%s %s)' % (
                    self.what, self.src.path, self.src.line_of(s), kind, rule))
            if e > self.end:
                raise SpecError('edit beyond span in %s' % self.what)
            out.append(text[pos:s])
            recon.append(text[pos:s])
            out.append(new)
            recon.append(text[s:e])
            if kind != 'insert':
                log.append({'kind': kind, 'rule': rule, 'file': self.src.path, 'line': self.src.line_of(s),
                            'original': text[s:e], 'replacement': new, 'note': note})
            pos = e
        out.append(text[pos:self.end])
        recon.append(text[pos:self.end])
        original = text[self.start:self.end]
        if ''.join(recon) != original:
            raise SpecError('self-check failed for %s' % self.what)
        return ''.join(out), log, original


# --------------------------------------------------------------------------
# function-level surgery
# --------------------------------------------------------------------------

DROP_ATTR = re.compile(r'#\s*\[\s*(derive|strum|cold|inline\s*\(\s*never\s*\)|doc|must_use|cfg_attr)')

RESERVED = ['int', 'nat', 'spec', 'proof', 'exec', 'old', 'tracked', 'ghost', 'open', 'closed', 'choose', 'forall',
            'exists', 'implies', 'by', 'via', 'invariant', 'ensures', 'requires', 'decreases', 'recommends', 'has', 'is', 'matches', 'final']


def fn_parts(src, item):
    """Locate signature pieces of fn item. Returns dict with sig indices."""
    sig = src.sig
    k = item.kw_index  # 'fn'
    name_i = k + 1
    i = name_i + 1
    if sig[i].text == '<':
        depth = 0
        while True:
            t = sig[i]
            if t.text == '<':
                depth += 1
            elif t.text == '>' and not (sig[i - 1].text == '-' and sig[i - 1].end == t.start):
                depth -= 1
                if depth == 0:
                    i += 1
                    break
            elif t.text in ('(', '['):
                i = t.match
            i += 1
    if sig[i].text != '(':
        raise AnchorLost('cannot find parameter list of fn %s' % item.name)
    popen = i
    pclose = sig[i].match
    i = pclose + 1
    ret = None
    if sig[i].text == '-' and sig[i + 1].text == '>':
        rs = i + 2
        j = rs
        base = sig[k].depth
        while True:
            t = sig[j]
            if t.depth == base and (t.text in ('{', ';') or (t.kind == 'id' and t.text == 'where')):
                break
            if t.text in ('(', '['):
                j = t.match
            j += 1
        ret = (sig[rs].start, sig[j - 1].end)
        i = j
    # where clause
    base = sig[k].depth
    while not (sig[i].depth == base and sig[i].text in ('{', ';')):
        if sig[i].text in ('(', '['):
            i = sig[i].match
        i += 1
    sig_end_tok = i
    return {'name_i': name_i, 'popen': popen, 'pclose': pclose, 'ret': ret, 'sig_end_tok': sig_end_tok,
            'has_body': sig[i].text == '{'}


def find_loops(src, lo, hi):
    """sig indices (kw, body_open) of loops between sig indices [lo,hi) in source order."""
    sig = src.sig
    res = []
    i = lo
    while i < hi:
        t = sig[i]
        if t.kind == 'id' and t.text in ('for', 'while', 'loop'):
            if t.text == 'for' and sig[i + 1].text == '<':
                i += 1
                continue
            # label `'a: loop` fine. find body '{' at same depth as kw
            j = i + 1
            while not (sig[j].text == '{' and sig[j].depth == t.depth):
                if sig[j].text in ('(', '['):
                    j = sig[j].match
                j += 1
            res.append((i, j))
        i += 1
    return res


CLOSURE_PREV = {'(', ',', '=', '{', ';', '[', '>', 'move', 'return', '&'}


def find_closures(src, lo, hi):
    """closures between sig indices [lo,hi): list of dict(bar1, bar2, body_start, body_end_pos, block)."""
    sig = src.sig
    res = []
    i = lo
    while i < hi:
        t = sig[i]
        if t.kind == 'p' and t.text == '|':
            prev = sig[i - 1]
            is_closure = prev.text in CLOSURE_PREV and not (prev.text == '>' and sig[i - 2].text != '=')
            if prev.text == '=' and sig[i - 2].text in ('|',):
                is_closure = False
            if is_closure:
                # params
                if sig[i + 1].text == '|' and sig[i + 1].start == t.end:
                    bar2 = i + 1
                else:
                    j = i + 1
                    while sig[j].text != '|' or sig[j].depth != t.depth:
                        if sig[j].text in ('(', '[', '{'):
                            j = sig[j].match
                        j += 1
                    bar2 = j
                b = bar2 + 1
                if sig[b].text == '-' and sig[b + 1].text == '>':
                    while sig[b].text != '{':
                        b += 1
                if sig[b].text == '{':
                    res.append({'bar1': i, 'bar2': bar2, 'body': b, 'block': True, 'end_pos': sig[sig[b].match].end})
                    # closures nested inside the block are found by continuing the scan
                    i = bar2 + 1
                    continue
                # expression body: ends before ',' ')' ';' '}' at depth of bar
                j = b
                while True:
                    tj = sig[j]
                    if tj.depth < t.depth or (tj.depth == t.depth and tj.text in (',', ';', ')', '}', ']')):
                        break
                    if tj.text in ('(', '[', '{') and tj.depth >= t.depth:
                        j = tj.match
                    j += 1
                res.append({'bar1': i, 'bar2': bar2, 'body': b, 'block': False, 'end_pos': sig[j - 1].end})
                i = bar2 + 1
                continue
        i += 1
    return res


def find_fragment(src, body_s, body_e, frag):
    """Locate textual fragment (optionally `text#n` for n-th occurrence, `#last`) in body span."""
    m = re.match(r'^(.*)#(\d+|last)$', frag.strip(), re.S)
    nth = 0
    if m:
        frag_t = m.group(1).strip()
        nth = m.group(2)
    else:
        frag_t = frag.strip()
    body = src.text[body_s:body_e]
    occ = [mm.start() for mm in re.finditer(re.escape(frag_t), body)]
    # ignore occurrences inside comments
    def in_comment(p):
        ap = body_s + p
        for t in src.all:
            if t.start <= ap < t.end:
                return t.kind in ('lc', 'bc')
            if t.start > ap:
                break
        return False
    occ = [p for p in occ if not in_comment(p)]
    if not occ:
        raise AnchorLost('fragment %r not found' % frag_t)
    if nth == 'last':
        p = occ[-1]
    elif m:
        n = int(nth)
        if n >= len(occ):
            raise AnchorLost('fragment %r occurrence %d not found' % (frag_t, n))
        p = occ[n]
    else:
        if len(occ) != 1:
            raise AnchorLost('fragment %r is ambiguous (%d occurrences)' % (frag_t, len(occ)))
        p = occ[0]
    return body_s + p, body_s + p + len(frag_t)


REWRITE_RULES = {
    # rule: list of (regex, replacement)
    'R1u': [
        (re.compile(r'\(([^()]*)\)\.to_be_bytes\(\)'), r'verif_u64_to_be_bytes((\1))'),
        (re.compile(r'\b([A-Za-z_][A-Za-z0-9_]*)\.to_be_bytes\(\)'), r'verif_u64_to_be_bytes(\1)'),
        (re.compile(r'\bu64::from_be_bytes\(([^()]*)\)'), r'verif_u64_from_be_bytes(\1)'),
    ],
    'R1i': [
        (re.compile(r'\b([A-Za-z_][A-Za-z0-9_]*)\.to_be_bytes\(\)'), r'verif_i64_to_be_bytes(\1)'),
        (re.compile(r'\bi64::from_be_bytes\(([^()]*)\)'), r'verif_i64_from_be_bytes(\1)'),
    ],
    'R2': [
        (re.compile(r'([A-Za-z_][A-Za-z0-9_.]*?)\s*\.extend\(core::iter::repeat\(([^()]*)\)\.take\(([^;]*?)\)\)(?=\s*[;}])', re.S),
         r'verif_vec_extend_repeat(&mut \1, \2, \3)'),
    ],
    'R2r': [
        # same as R2 where the receiver already is a `&mut Vec<_>` binding
        (re.compile(r'([A-Za-z_][A-Za-z0-9_.]*?)\s*\.extend\(core::iter::repeat\(([^()]*)\)\.take\(([^;]*?)\)\)(?=\s*[;}])', re.S),
         r'verif_vec_extend_repeat(\1, \2, \3)'),
    ],
    # R13: the closure-generic traits Reader / Writer are instantiated at the one implementation under contract
    # (UperReader<B> / UperWriter): Verus rejects the mutually generic trait pair as cyclic, rustc monomorphises the same way
    'R13r': [
        (re.compile(r'<R: Reader>'), r'<B: ScopedBitRead>'),
        (re.compile(r'&mut R\b'), r'&mut UperReader<B>'),
        (re.compile(r'<R as Reader>::Error'), r'Error'),
        (re.compile(r'\bR::Error\b'), r'Error'),
        (re.compile(r'::<R>\('), r'('),
    ],
    'R13w': [
        (re.compile(r'<W: Writer>'), r''),
        (re.compile(r'&mut W\b'), r'&mut UperWriter'),
        (re.compile(r'<W as Writer>::Error'), r'Error'),
        (re.compile(r'\bW::Error\b'), r'Error'),
        (re.compile(r'::<W>\('), r'('),
    ],
    'R13e': [
        (re.compile(r'\bSelf::Error\b'), r'Error'),
    ],
    'R21': [
        # a datatype constructor used as a function value (unsupported by Verus) -> the closure it abbreviates
        (re.compile(r'\.map\(Some\)'), r'.map(|verif_v| -> (verif_o: Option<_>) ensures verif_o == Some(verif_v) { Some(verif_v) })'),
    ],
    'R22': [
        # ToOwned::to_owned of the DEFAULT value constant has no vstd specification: trusted wrapper with the same body
        (re.compile(r'C::DEFAULT_VALUE\.to_owned\(\)'), r'verif_default_value::<C>()'),
    ],
    'R24': [
        # PartialEq::ne between the DEFAULT constant (Borrowed) and the value (Owned) has no vstd specification: trusted wrapper, same body
        (re.compile(r'C::DEFAULT_VALUE\.ne\(value\)'), r'verif_default_ne::<C>(value)'),
    ],
    'R3': [
        (re.compile(r'String::from_utf8\(([A-Za-z_][A-Za-z0-9_]*)\)\.map_err\(\|e\| ErrorKind::FromUtf8Error\(e\)\.into\(\)\)'),
         r'verif_string_from_utf8(\1)'),
    ],
    'R4': [
        (re.compile(r'([A-Za-z_][A-Za-z0-9_]*)\.chars\(\)\.count\(\)'), r'verif_str_char_count(\1)'),
    ],
    'R19': [
        # format!(...) producing a diagnostic String: replaced by an opaque String (no semantic content for the contracts)
        (re.compile(r'format!\((?:[^()]|\([^()]*\))*\)'), r'verif_opaque_string()'),
    ],
    'R15': [
        (re.compile(r'std::mem::size_of::<u64>\(\)'), r'8usize'),
        (re.compile(r'std::mem::size_of::<i64>\(\)'), r'8usize'),
        (re.compile(r'core::mem::size_of::<i64>\(\)'), r'8usize'),
    ],
}


class Extractor:
    def __init__(self, repo, features, known_off=False, canary=None):
        self.repo = repo
        self.sources = {}
        self.features = set(features)
        self.log = []
        self.spans = []
        self.fn_index = []   # functions under contract
        self.known_off = known_off
        self.canary = canary
        self.known_used = set()

    def source(self, rel):
        if rel not in self.sources:
            p = os.path.join(self.repo, rel)
            if not os.path.exists(p):
                raise AnchorLost('file %s missing' % rel)
            self.sources[rel] = Source(rel, open(p).read())
        return self.sources[rel]

    def find_top(self, src, kind, name):
        nth = 1
        m = re.match(r'^(.*)#(\d+)$', name)
        if m:
            name, nth = m.group(1).strip(), int(m.group(2))
        cnt = 0
        for it in top_items(src):
            if it.kind == kind and it.name == name:
                cnt += 1
                if cnt == nth:
                    return it
        # nested in `mod`?
        for it in top_items(src):
            if it.kind == 'mod' and it.block_open is not None:
                for sub in block_items(src, it):
                    if sub.kind == kind and sub.name == name:
                        return sub
        raise AnchorLost('%s %s not found in %s' % (kind, name, src.path))

    def record_span(self, src, s, e, what):
        self.spans.append({'what': what, 'file': src.path, 'line_start': src.line_of(s), 'line_end': src.line_of(max(s, e - 1)),
                           'sha256': hashlib.sha256(src.text[s:e].encode()).hexdigest()})

    # -- plain items -----------------------------------------------------
    def plain_item(self, src, it, what):
        p = Pieces(src, it.attr_start, it.end, what)
        self.common_edits(src, it, p)
        sig = src.sig
        # R7 inside struct/enum bodies: pub(crate) -> pub ; R5 for cfg'd fields handled by rustc
        lo = src.tok_index_at(it.start)
        hi = src.tok_index_at(it.end)
        for i in range(lo, hi):
            if sig[i].text == 'pub' and sig[i + 1].text == '(' and i > it.kw_index:
                p.rewrite(sig[i].start, sig[sig[i + 1].match].end, 'pub', 'R7')
            if it.kind in ('struct',) and sig[i].kind == 'id' and sig[i + 1].text == ':' and sig[i].depth == sig[it.kw_index].depth + 1 \
                    and sig[i - 1].text in ('{', ',', ']') :
                # private field -> pub (single-file crate, specs need access)  R7
                p.insert(sig[i].start, 'pub ')
            # R20: crate-internal module path in a field type -> flat name (single-file crate)
            if [t.text for t in sig[i:i + 6]] == ['crate', ':', ':', 'rw', ':', ':']:
                p.rewrite(sig[i].start, sig[i + 5].end, '', 'R20')
        text, log, orig = p.render()
        self.log += log
        self.record_span(src, it.attr_start, it.end, what)
        return text

    def common_edits(self, src, it, p):
        # attributes
        for (s, e, t) in it.attrs:
            if DROP_ATTR.match(t):
                # drop including trailing whitespace up to next token
                e2 = e
                while e2 < len(src.text) and src.text[e2] in ' \t\r\n':
                    e2 += 1
                p.drop(s, e2, 'R6')
        # visibility
        sig = src.sig
        j = src.tok_index_at(it.start)
        if sig[j].text == 'pub' and sig[j + 1].text == '(':
            p.rewrite(sig[j].start, sig[sig[j + 1].match].end, 'pub', 'R7')

    # -- functions -------------------------------------------------------
    def function(self, src, it, fs, container, in_trait_decl=False, force_pub=False):
        sig = src.sig
        what = '%s :: %s :: %s' % (src.path, container, it.name)
        p = Pieces(src, it.attr_start, it.end, what)
        self.common_edits(src, it, p)
        parts = fn_parts(src, it)
        j = src.tok_index_at(it.start)
        if force_pub and sig[j].text != 'pub':
            p.insert(it.start, 'pub ')
        for a in fs.attrs:
            p.insert(it.start, a + '\n')
        if fs.assumed and parts['has_body']:
            p.insert(it.start, '#[verifier::external_body]\n')
        # R5: cfg-gated parameters
        self.cfg_params(src, p, parts['popen'], parts['pclose'])
        # R8 alpha-renaming of reserved identifiers (params + body)
        lo_i = parts['popen']
        hi_i = src.tok_index_at(it.end)
        if 'R8' in fs.rewrites:
            for i in range(lo_i, hi_i):
                t = sig[i]
                if t.kind == 'id' and t.text in RESERVED and sig[i - 1].text != '.' and sig[i + 1].text != '!':
                    p.rewrite(t.start, t.end, t.text + '_', 'R8')
        # R17: `x: &mut impl Trait` in argument position is an anonymous generic parameter; name it so that
        # closure headers can mention the type (identical desugaring)
        if 'R17' in fs.rewrites:
            fired = False
            names = []
            i = parts['popen'] + 1
            while i < parts['pclose']:
                if sig[i].text == 'impl' and sig[i].kind == 'id':
                    tr = sig[i + 1]
                    gname = 'V' + tr.text
                    end = tr.end
                    bound = tr.text
                    if sig[i + 2].text == '<':
                        # generic arguments of the trait belong to the bound: `&impl Resolver<T>` -> `&VResolver` with `VResolver: Resolver<T>`
                        depth = 0
                        k = i + 2
                        while True:
                            if sig[k].text == '<':
                                depth += 1
                            elif sig[k].text == '>':
                                depth -= 1
                                if depth == 0:
                                    break
                            k += 1
                        end = sig[k].end
                        bound = src.text[tr.start:end]
                    p.rewrite(sig[i].start, end, gname, 'R17', 'impl %s argument named %s' % (bound, gname))
                    names.append('%s: %s' % (gname, bound))
                    fired = True
                i += 1
            if not fired:
                raise AnchorLost('%s: rewrite rule R17 listed but did not fire' % what)
            ni = sig[parts['name_i']]
            if sig[parts['name_i'] + 1].text == '<':
                p.insert(sig[parts['name_i'] + 1].end, ', '.join(names) + ', ')
            else:
                p.insert(ni.end, '<' + ', '.join(names) + '>')
        # R18: `<Resolved as ResolveState>::RangeType` -> i64 (checked against the impl in resolve.rs on every run)
        if 'R18' in fs.rewrites:
            rs = self.source('asn1rs-model/src/resolve.rs').text
            if not re.search(r'impl\s+ResolveState\s+for\s+Resolved\s*\{[^}]*type\s+RangeType\s*=\s*i64\s*;', rs):
                raise AnchorLost('%s: R18: `type RangeType = i64` not found in impl ResolveState for Resolved' % what)
            sigtxt = src.text[sig[parts['popen']].start:sig[parts['pclose']].end]
            fired = False
            for m in re.finditer(r'<\s*Resolved\s+as\s+ResolveState\s*>\s*::\s*RangeType', sigtxt):
                p.rewrite(sig[parts['popen']].start + m.start(), sig[parts['popen']].start + m.end(), 'i64', 'R18')
                fired = True
            if not fired:
                raise AnchorLost('%s: rewrite rule R18 listed but did not fire' % what)
        # R13*: instantiate the generic Reader / Writer parameter (signature and body)
        for rule in sorted(fs.rewrites):
            optional = rule.endswith('?')
            rname = rule.rstrip('?')
            if rname in ('R13r', 'R13w', 'R13e'):
                lo = sig[parts['name_i']].end
                # an assumed function keeps only its signature (rule A0 replaces the body)
                hi = sig[parts['sig_end_tok']].start if (fs.assumed and parts['has_body']) else it.end
                txt = src.text[lo:hi]
                fired = False
                for rx, rep in REWRITE_RULES[rname]:
                    for m in rx.finditer(txt):
                        p.rewrite(lo + m.start(), lo + m.end(), m.expand(rep), rname)
                        fired = True
                if not fired and not optional:
                    raise AnchorLost('%s: rewrite rule %s listed but did not fire' % (what, rname))
        # R0: name the return value
        has_spec = bool(fs.requires or fs.ensures or fs.decreases)
        if parts['ret'] and not fs.noret:
            rs, re_ = parts['ret']
            p.insert(rs, '(%s: ' % fs.ret)
            p.insert(re_, ')')
        # contract
        self._cur_has_body = parts['has_body']
        spec_txt = self.contract_text(fs, what)
        end_tok = sig[parts['sig_end_tok']]
        if spec_txt:
            p.insert(end_tok.start, '\n' + spec_txt)
        self.fn_index.append({'fn': what, 'file': src.path, 'line_start': src.line_of(it.start), 'line_end': src.line_of(it.end - 1),
                              'assumed': fs.assumed, 'trusted': getattr(fs, 'trusted', False), 'has_contract': has_spec, 'known': sorted(k for (_, k) in fs.requires + fs.ensures if k)})
        if not parts['has_body']:
            text, log, orig = p.render()
            self.log += log
            self.record_span(src, it.attr_start, it.end, what)
            self.fn_index[-1]['_text'] = text
            self.fn_index[-1]['has_body'] = False
            return text
        bo = parts['sig_end_tok']
        bc = sig[bo].match
        body_s, body_e = sig[bo].end, sig[bc].start
        if fs.assumed:
            p.rewrite(sig[bo].start, sig[bc].end, '{ unimplemented!() }', 'A0', 'contract ASSUMED: the body is outside the verifier subset (trusted)' if getattr(fs, 'trusted', False)
                      else 'contract assumed in this unit; proved in the unit that owns the function')
            text, log, orig = p.render()
            self.log += log
            self.record_span(src, it.attr_start, it.end, what)
            self.fn_index[-1]['_text'] = text
            self.fn_index[-1]['has_body'] = False
            return text
        if self.canary == 'ALL':
            # vacuity canary: must be refuted in every function (a contradictory pre-condition would verify it)
            p.insert(body_s, '\nproof { assert(false); } // canary\n')
        # loops
        loops = find_loops(src, bo + 1, bc)
        for k, txt in fs.loops.items():
            if k >= len(loops):
                raise AnchorLost('%s: loop %d not found (function has %d loops)' % (what, k, len(loops)))
            kw, lb = loops[k]
            p.insert(sig[lb].start, '\n' + txt + '\n')
            if sig[kw].text == 'for' and re.search(r'\biter\.', txt):
                # Verus names the ghost iterator of a for loop: `for x in iter: EXPR` (annotation, erased)
                j = kw + 1
                while sig[j].text != 'in':
                    j += 1
                p.insert(sig[j].end, ' iter:')
            if sig[kw].text == 'for' and 'iter:' in txt.split('\n')[0]:
                pass
        # for-loop ghost iterator naming: "@loop k" text may start with "iter NAME" line
        # R23: a closure whose single parameter is a tuple pattern `|(a, b)| BODY` -> `|verif_p| { let (a, b) = verif_p; BODY }`
        # (Verus accepts only variables as closure parameters; this is the desugaring rustc performs)
        if 'R23' in fs.rewrites:
            fired = False
            for cl in find_closures(src, bo + 1, bc):
                b1, b2 = sig[cl['bar1']], sig[cl['bar2']]
                params = src.text[b1.end:b2.start].strip()
                if params.startswith('(') and params.endswith(')') and sig[cl['bar1'] + 1].match == cl['bar2'] - 1:
                    p.rewrite(b1.start, b2.end, '|verif_p|', 'R23')
                    bt = sig[cl['body']]
                    if cl['block']:
                        p.insert(bt.end, ' let %s = verif_p;' % params)
                    else:
                        p.insert(bt.start, '{ let %s = verif_p; ' % params)
                        p.insert(cl['end_pos'], ' }')
                    fired = True
            if not fired:
                raise AnchorLost('%s: rewrite rule R23 listed but did not fire' % what)
        # closures
        if fs.closures:
            cls = find_closures(src, bo + 1, bc)
            for k, c in fs.closures.items():
                if k >= len(cls):
                    raise AnchorLost('%s: closure %d not found (function has %d closures)' % (what, k, len(cls)))
                cl = cls[k]
                b1, b2 = sig[cl['bar1']], sig[cl['bar2']]
                orig_params = src.text[b1.start:b2.end]
                if c['header']:
                    new_header = c['header']
                    # sanity: parameter names must be preserved
                    on = re.findall(r'[A-Za-z_][A-Za-z0-9_]*', re.sub(r':[^,|]*', '', orig_params))
                    hdr_params = new_header[new_header.index('|'):new_header.rindex('|') + 1]
                    nn = re.findall(r'[A-Za-z_][A-Za-z0-9_]*', re.sub(r':[^,|]*', '', hdr_params))
                    on = [x for x in on if x not in ('mut',)]
                    nn = [x for x in nn if x not in ('mut',)]
                    if 'R9' in fs.rewrites:
                        on = [x for x in on if x != '_']
                        nn = [x for x in nn if not re.match(r'_p\d+$', x)]
                    if on != nn:
                        raise AnchorLost('%s: closure %d parameters %r do not match sidecar header %r' % (what, k, orig_params, new_header))
                    p.rewrite(b1.start, b2.end, new_header, 'RC', 'closure parameter types / named return added')
                spec = c['spec'].rstrip()
                bt = sig[cl['body']]
                if cl['block']:
                    if spec:
                        p.insert(bt.start, '\n' + spec + '\n')
                else:
                    p.insert(bt.start, ('\n' + spec + '\n' if spec else '') + '{ ')
                    p.insert(cl['end_pos'], ' }')
        # ghost insertions
        for anchor, txt in fs.ghosts:
            a = anchor.split(None, 1)
            if a[0] == 'fn-start':
                p.insert(body_s, '\n' + txt + '\n')
            elif a[0] == 'fn-end':
                p.insert(body_e, '\n' + txt + '\n')
            elif a[0] == 'loop':
                m = re.match(r'(\d+)\s+(start|end)', a[1])
                k = int(m.group(1))
                if k >= len(loops):
                    raise AnchorLost('%s: loop %d not found' % (what, k))
                lb = loops[k][1]
                if m.group(2) == 'start':
                    p.insert(sig[lb].end, '\n' + txt + '\n')
                else:
                    p.insert(sig[sig[lb].match].start, '\n' + txt + '\n')
            elif a[0] in ('before', 'after'):
                try:
                    fs_, fe_ = find_fragment(src, body_s, body_e, a[1])
                except AnchorLost as ex:
                    raise AnchorLost('%s: %s' % (what, ex))
                if a[0] == 'before':
                    ls = src.line_start(fs_)
                    p.insert(ls, txt + '\n')
                else:
                    le = src.line_end(fe_)
                    p.insert(le, txt + '\n')
            elif a[0] == 'tail':
                # R14: bind the tail expression (`let verif_tail = <tail>; <ghost> verif_tail`).  Pure insertions:
                # evaluation order and result are those of the original tail expression.
                fs_, fe_ = find_fragment(src, body_s, body_e, a[1])
                # innermost brace block enclosing the fragment: its closing brace ends the tail expression
                ti = src.tok_index_at(fs_)
                k = ti - 1
                while not (sig[k].text == '{' and sig[k].match > ti):
                    k -= 1
                blk_end = sig[sig[k].match].start
                p.insert(fs_, 'let verif_tail = ')
                p.insert(blk_end, ';\n' + txt + '\nverif_tail\n')
                self.log.append({'kind': 'insert-exec', 'rule': 'R14', 'file': src.path, 'line': src.line_of(fs_),
                                 'original': '', 'replacement': 'let verif_tail = <tail expression>; <ghost>; verif_tail', 'note': 'tail expression let-bound so that ghost code can follow the call'})
            elif a[0] in ('before-inline', 'after-inline'):
                fs_, fe_ = find_fragment(src, body_s, body_e, a[1])
                p.insert(fs_ if a[0] == 'before-inline' else fe_, ' ' + txt + ' ')
            else:
                raise SpecError('%s: unknown ghost anchor %r' % (what, anchor))
        body = src.text[body_s:body_e]
        if 'R11' in fs.rewrites:
            # debug_assert!(C, msg..) -> assert!(C);  debug_assert_eq!(A, B, msg..) -> assert!(A == B)
            # (proves that the assertion can never fire, in any build profile; message arguments dropped)
            fired = False
            for m in re.finditer(r'\bdebug_assert(_eq)?!\s*\(', body):
                oi = src.tok_index_at(body_s + m.end() - 1)
                ci = sig[oi].match
                # split top-level arguments
                args = []
                cur = sig[oi].end
                k = oi + 1
                while k < ci:
                    if sig[k].text in ('(', '[', '{'):
                        k = sig[k].match
                    elif sig[k].text == ',':
                        args.append(src.text[cur:sig[k].start].strip())
                        cur = sig[k].end
                    k += 1
                last = src.text[cur:sig[ci].start].strip()
                if last:
                    args.append(last)
                if m.group(1):
                    repl = 'assert!((%s) == (%s))' % (args[0], args[1])
                else:
                    repl = 'assert!(%s)' % args[0]
                p.rewrite(body_s + m.start(), sig[ci].end, repl, 'R11')
                fired = True
            if not fired:
                raise AnchorLost('%s: rewrite rule R11 listed but did not fire' % what)
        # regex rewrite rules on body
        for rule in sorted(fs.rewrites):
            optional = rule.endswith('?')
            rule = rule.rstrip('?')
            m16 = re.match(r'R16\((.+)\)$', rule)
            if m16:
                # `&mut V[range]` on a Vec V  ->  `&mut V.as_mut_slice()[range]` (std defines the former as the latter;
                # vstd specifies IndexMut<Range*> for slices and arrays only)
                rx = re.compile(r'&mut\s+' + re.escape(m16.group(1)) + r'(?=\[)')
                fired = False
                for m in rx.finditer(body):
                    p.rewrite(body_s + m.start(), body_s + m.end(), '&mut ' + m16.group(1) + '.as_mut_slice()', 'R16')
                    fired = True
                if not fired:
                    raise AnchorLost('%s: rewrite rule %s listed but did not fire' % (what, rule))
                continue
            if rule in ('R13r', 'R13w', 'R13e'):
                continue
            if rule in REWRITE_RULES:
                fired = False
                for rx, rep in REWRITE_RULES[rule]:
                    for m in rx.finditer(body):
                        s_, e_ = body_s + m.start(), body_s + m.end()
                        if any(s_ < ee and e_ > ss and ss != ee for (ss, ee, *_x) in p.edits):
                            continue
                        p.rewrite(s_, e_, m.expand(rep), rule)
                        fired = True
                if not fired and not optional:
                    raise AnchorLost('%s: rewrite rule %s listed but did not fire' % (what, rule))
        if 'R10a' in fs.rewrites:
            # X.as_mut().filter(|_| C).map(|P| { BODY }).transpose()   (closure captures a &mut: unsupported by Verus)
            #   ->  if let Some(P) = X.as_mut() { if C { match { BODY } { Ok(v) => Ok(Some(v)), Err(e) => Err(e) } } else { Ok(None) } } else { Ok(None) }
            rx = re.compile(r'([A-Za-z_][A-Za-z0-9_]*)\s*\.as_mut\(\)\s*\.filter\(\|_\|\s*([A-Za-z_][A-Za-z0-9_]*)\)\s*\.map\(\|([A-Za-z_][A-Za-z0-9_]*)\|\s*(?=\{)')
            m = rx.search(body)
            if not m:
                raise AnchorLost('%s: rewrite rule R10a listed but did not fire' % what)
            ob = src.tok_index_at(body_s + m.end())
            assert sig[ob].text == '{'
            cb = sig[ob].match
            inner = src.text[sig[ob].end:sig[cb].start]
            if re.search(r'\breturn\b|\?|\bbreak\b|\bcontinue\b', re.sub(r'//.*', '', inner)):
                raise AnchorLost('%s: R10a closure body contains control flow, rewrite not applicable' % what)
            m2 = re.compile(r'\s*\)\s*\.transpose\(\)').match(src.text, sig[cb].end)
            if not m2:
                raise AnchorLost('%s: R10a: .transpose() not found after the closure' % what)
            p.rewrite(body_s + m.start(), body_s + m.end(),
                      'if let Some(%s) = %s.as_mut() { if %s { match ' % (m.group(3), m.group(1), m.group(2)), 'R10a')
            p.rewrite(sig[cb].end, m2.end(),
                      ' { Ok(verif_v) => Ok(Some(verif_v)), Err(verif_e) => Err(verif_e) } } else { Ok(None) } } else { Ok(None) }', 'R10a')
        # R9: closure parameter `_` handled in header rewrite.  R5 for call arguments in body:
        self.cfg_args(src, p, bo + 1, bc)
        text, log, orig = p.render()
        self.log += log
        self.record_span(src, it.attr_start, it.end, what)
        self.fn_index[-1]['_text'] = text
        self.fn_index[-1]['has_body'] = True
        return text

    def contract_text(self, fs, what):
        out = []
        req = [t for (t, k) in fs.requires if not (k and self.known_off)]
        ens = [t for (t, k) in fs.ensures if not (k and self.known_off)]
        for (t, k) in fs.requires + fs.ensures:
            if k:
                self.known_used.add(k)
        if self.canary and (self.canary == what or what.endswith(':: ' + self.canary)):
            ens = ['false,']
        if req:
            out.append('    requires\n' + '\n'.join(self._clauses(req)))
        if ens:
            out.append('    ensures\n' + '\n'.join(self._clauses(ens)))
        if fs.decreases:
            out.append('    decreases ' + fs.decreases.strip())
        return '\n'.join(out) + ('\n' if out else '')

    @staticmethod
    def _clauses(lst):
        res = []
        for t in lst:
            t = t.rstrip()
            if not t.strip():
                continue
            if not t.rstrip().endswith(','):
                t += ','
            res.append(t)
        return res

    def cfg_params(self, src, p, popen, pclose):
        self._cfg_in_parens(src, p, popen, pclose)

    def cfg_args(self, src, p, lo, hi):
        sig = src.sig
        i = lo
        while i < hi:
            if sig[i].text == '(' :
                self._cfg_in_parens(src, p, i, sig[i].match, recurse=False)
            i += 1

    def _cfg_in_parens(self, src, p, popen, pclose, recurse=False):
        """R5: `#[cfg(feature = "X")] <param or argument>,` directly inside a parenthesis."""
        sig = src.sig
        i = popen + 1
        while i < pclose:
            t = sig[i]
            if t.depth == sig[popen].depth + 1 and t.text == '#' and sig[i + 1].text == '[' and sig[i + 2].text == 'cfg':
                close = sig[i + 1].match
                m = re.search(r'feature\s*=\s*"([^"]+)"', src.text[t.start:sig[close].end])
                if not m:
                    raise SpecError('unsupported cfg in parameter/argument list at %s:%d' % (src.path, src.line_of(t.start)))
                feat = m.group(1)
                # element extends to next ',' at this depth (inclusive) or to pclose
                j = close + 1
                while j < pclose and not (sig[j].text == ',' and sig[j].depth == t.depth):
                    if sig[j].text in ('(', '[', '{'):
                        j = sig[j].match
                    j += 1
                if feat in self.features:
                    e2 = sig[close].end
                    while src.text[e2] in ' \t\r\n':
                        e2 += 1
                    p.drop(t.start, e2, 'R5', 'cfg attribute resolved: feature %s ON' % feat)
                else:
                    e2 = sig[j].end if j < pclose else sig[j - 1].end
                    while src.text[e2] in ' \t\r\n':
                        e2 += 1
                    p.drop(t.start, e2, 'R5', 'cfg-gated parameter/argument removed: feature %s OFF' % feat)
                i = j
            elif t.text in ('(', '[', '{') and t.depth >= sig[popen].depth + 1:
                i = t.match
            i += 1

    # -- blocks ----------------------------------------------------------
    def block(self, b):
        src = self.source(b.file)
        if b.kind == 'trait':
            name = b.header.split()[-1] if b.header.startswith('trait ') else b.header
            name = re.match(r'(?:trait\s+)?([A-Za-z_][A-Za-z0-9_]*)', b.header).group(1)
            it = self.find_top(src, 'trait', name)
        else:
            hm = re.match(r'^(.*?)(#\d+)?$', b.header)
            it = self.find_top(src, 'impl', norm_ws(hm.group(1)) + (hm.group(2) or ''))
        sig = src.sig
        # header: from item start to '{'
        hp = Pieces(src, it.attr_start, sig[it.block_open].end, '%s :: %s {' % (b.file, b.header))
        self.common_edits(src, it, hp)
        if b.header_rewrite:
            hp.rewrite(it.start, sig[it.block_open].start, b.header_rewrite + ' ', 'R13', 'block header instantiated')
        htext, hlog, _ = hp.render()
        self.log += hlog
        self.record_span(src, it.attr_start, sig[it.block_open].end, hp.what)
        out = [htext, '\n']
        if b.extra.strip():
            out.append(expand_macros(b.extra, DEFINES))
            out.append('\n')
        members = block_items(src, it)
        by_name = {}
        for m in members:
            by_name.setdefault((m.kind, m.name), m)
        listed = {f.name: f for f in b.fns}
        for f in b.fns:
            if ('fn', f.name) not in by_name:
                raise AnchorLost('fn %s not found in %s :: %s' % (f.name, b.file, b.header))
        for m in members:
            if m.kind == 'fn':
                fs = listed.get(m.name)
                if fs is None:
                    if not b.all:
                        continue
                    fs = FnSpec(m.name)
                    fs.assumed = b.assumed_all
                out.append('    ')
                out.append(self.function(src, m, fs, b.header, in_trait_decl=(b.kind == 'trait')))
                out.append('\n\n')
            elif m.kind in ('type', 'const') and (m.kind, m.name) in b.drop_members:
                self.log.append({'rule': 'R13', 'what': '%s :: %s' % (b.file, b.header), 'note': 'member `%s %s` dropped (trait impl extracted as inherent impl)' % (m.kind, m.name)})
            elif m.kind in ('type', 'const') and b.all or (m.kind in ('type', 'const')):
                out.append('    ' + self.plain_item(src, m, '%s :: %s :: %s %s' % (b.file, b.header, m.kind, m.name)) + '\n')
        out.append('}\n')
        return ''.join(out)

    def free_fn(self, file, fs):
        src = self.source(file)
        it = self.find_top(src, 'fn', fs.name)
        return self.function(src, it, fs, '-') + '\n'

    def consts(self, file, names):
        src = self.source(file)
        out = []
        for n in names:
            attr = ''
            if n.endswith('!nl'):
                n = n[:-3]
                attr = '#[verifier::nonlinear]\n'   # annotation only: lets Z3 evaluate the constant product
            it = self.find_top(src, 'const', n)
            out.append(attr + self.plain_item(src, it, '%s :: const %s' % (file, n)))
        return '\n'.join(out) + '\n'

    def item(self, file, what):
        src = self.source(file)
        kind, name = what.split()
        it = self.find_top(src, kind, name)
        return self.plain_item(src, it, '%s :: %s' % (file, what)) + '\n'

    def macro(self, file, name):
        src = self.source(file)
        it = self.find_top(src, 'macro_rules', name)
        p = Pieces(src, it.start, it.end, '%s :: macro_rules! %s' % (file, name))
        text, log, _ = p.render()
        self.record_span(src, it.start, it.end, p.what)
        return text + '\n'


def generate(spec_path, repo, features, known_off=False, canary=None):
    unit = parse_spec(spec_path)
    DEFINES.clear()
    DEFINES.update(unit.defines)
    KF_USED.clear()
    KNOWN_OFF[0] = bool(known_off)
    ex = Extractor(repo, features, known_off, canary)
    outside = []
    for file, names in unit.macros:
        for n in names:
            outside.append(ex.macro(file, n))
    outside += unit.outside
    body = []
    preludes = []
    for e in unit.entries:
        if e[0] == 'prelude':
            path = os.path.join(os.path.dirname(os.path.abspath(spec_path)), e[1])
            body.append('// ---- prelude %s ----\n' % e[1] + open(path).read() + '\n')
            preludes.append(e[1])
        elif e[0] == 'prelude-if':
            if e[1] in features:
                path = os.path.join(os.path.dirname(os.path.abspath(spec_path)), e[2])
                body.append('// ---- prelude %s (feature %s) ----\n' % (e[2], e[1]) + expand_macros(open(path).read(), DEFINES) + '\n')
                preludes.append(e[2])
        elif e[0] == 'expect':
            try:
                have = re.sub(r'\s+', ' ', open(os.path.join(repo, e[1])).read())
            except OSError:
                raise AnchorLost('@expect: %s not found' % e[1])
            if re.sub(r'\s+', ' ', e[2]) not in have:
                raise AnchorLost('@expect: `%s` no longer occurs in %s (a stand-in in the prelude mirrors that text)' % (e[2], e[1]))
            body.append('// ---- expect (checked): %s contains `%s`\n' % (e[1], e[2]))
        elif e[0] == 'raw-file':
            # text produced at run time (macro output of the current tree, transformed by tools/glue.py)
            body.append('// ---- raw-file %s ----\n' % e[1] + open(os.path.join(VERIF, e[1])).read() + '\n')
        elif e[0] == 'raw':
            body.append(expand_macros(e[1], DEFINES) + '\n')
        elif e[0] == 'const':
            body.append(ex.consts(e[1], e[2]))
        elif e[0] == 'item':
            body.append(ex.item(e[1], e[2]))
        elif e[0] == 'block':
            body.append(ex.block(e[1]))
        elif e[0] == 'free':
            body.append(ex.free_fn(e[1], e[2]))
    text = ('// GENERATED by /verif/tools/extract.py from %s -- do not edit\n'
            '#![allow(unused_imports, unused_variables, dead_code, unused_mut, unused_macros, non_snake_case, unused_parens, unused_braces, unreachable_code, unused_assignments)]\n'
            'use vstd::prelude::*;\n' % os.path.relpath(spec_path, VERIF)
            + '\n'.join(outside) + '\nverus! {\n' + '\n'.join(body) + '\n} // verus!\nfn main() {}\n')
    # line ranges of every extracted function inside the generated file
    search_from = 0
    for f in ex.fn_index:
        t = f.pop('_text', None)
        if t is None:
            continue
        pos = text.find(t, search_from)
        if pos < 0:
            pos = text.find(t)
        if pos >= 0:
            f['gen_line_start'] = text.count('\n', 0, pos) + 1
            f['gen_line_end'] = f['gen_line_start'] + t.count('\n')
            search_from = pos + len(t)
    meta = {
        'unit': unit.name, 'spec': os.path.relpath(spec_path, VERIF), 'flags': unit.flags, 'features': sorted(features),
        'spans': ex.spans, 'rewrites': ex.log, 'functions': ex.fn_index, 'preludes': preludes,
        'known_clauses': sorted(ex.known_used | KF_USED), 'known_off': known_off, 'canary': canary,
    }
    return unit, text, meta


def main():
    ap = argparse.ArgumentParser()
    ap.add_argument('spec')
    ap.add_argument('--repo', default='/repo')
    ap.add_argument('--out', default=os.path.join(VERIF, 'gen'))
    ap.add_argument('--feature', action='append', default=[])
    ap.add_argument('--known-off', action='store_true')
    ap.add_argument('--canary')
    ap.add_argument('--suffix', default='')
    a = ap.parse_args()
    try:
        unit, text, meta = generate(a.spec, a.repo, a.feature, a.known_off, a.canary)
    except AnchorLost as ex:
        print('ANCHOR-LOST: %s' % ex, file=sys.stderr)
        sys.exit(2)
    except SpecError as ex:
        print('SPEC-ERROR: %s' % ex, file=sys.stderr)
        sys.exit(2)
    os.makedirs(a.out, exist_ok=True)
    base = os.path.join(a.out, unit.name + a.suffix)
    open(base + '.rs', 'w').write(text)
    json.dump(meta, open(base + '.map.json', 'w'), indent=1)
    print(base + '.rs')


if __name__ == '__main__':
    main()
