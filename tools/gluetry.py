"""developer helper: run only the glue unit against the current /repo tree and print the failed obligations"""
import sys, os
sys.path.insert(0, os.path.dirname(os.path.abspath(__file__)))
import run, props
b = run.replay_build()
r = run.glue_unit(b, props.GLUE_ZOO)
print('verified', r['verified'], 'errors', r['errors'], 'compile_error', r['compile_error'])
if r['compile_error']:
    print(r['stderr'][-3000:])
for f in r['failures']:
    print(' ', f['function'], '::', f['kind'])
