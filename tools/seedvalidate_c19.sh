#!/bin/bash
# usage: seedvalidate_c19.sh <worktree> <seed-dir>  -- C19 seeds: the demo must fail only with the change AND the feature enabled
WT=$1; SD=$2
cd "$WT" || exit 2
git checkout -q -- . ; rm -f tests/demo.rs
git apply --check "$SD/patch.diff" || { echo "PATCH DOES NOT APPLY"; exit 2; }
git apply "$SD/patch.diff"
/verif/tools/baseline.sh "$WT" > /tmp/seedval_suite.txt 2>&1; SUITE=$?
cp "$SD/demo.rs" tests/demo.rs
CARGO_NET_OFFLINE=true cargo test --offline --test demo > /tmp/seedval_demo_with_off.txt 2>&1; WITH_OFF=$?
CARGO_NET_OFFLINE=true cargo test --offline --features descriptive-deserialize-errors --test demo > /tmp/seedval_demo_with_on.txt 2>&1; WITH_ON=$?
git checkout -q -- .
CARGO_NET_OFFLINE=true cargo test --offline --features descriptive-deserialize-errors --test demo > /tmp/seedval_demo_without_on.txt 2>&1; WITHOUT_ON=$?
rm -f tests/demo.rs
echo "suite_with_change_rc=$SUITE ($(tail -1 /tmp/seedval_suite.txt)) demo_change_featureoff_rc=$WITH_OFF demo_change_featureon_rc=$WITH_ON demo_nochange_featureon_rc=$WITHOUT_ON"
[ $SUITE -eq 0 ] && [ $WITH_OFF -eq 0 ] && [ $WITH_ON -ne 0 ] && [ $WITHOUT_ON -eq 0 ] && echo CONFIRMED || echo NOT-CONFIRMED
