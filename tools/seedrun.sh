#!/bin/bash
# usage: seedrun.sh <patch.diff> <prop>...   -- apply a seeded change to /repo, run the given quick checks, undo.
# The evidence files describe the UNCHANGED tree: they are saved before and restored after the seeded runs.
P=$1; shift
SAVE=$(mktemp -d /tmp/evidence_save.XXXXXX)
cp -a /verif/evidence/. "$SAVE"/
cd /repo && git apply "$P" || { echo "patch does not apply to /repo"; rm -rf "$SAVE"; exit 2; }
cd /verif
for id in "$@"; do
  ./check $id --tier quick > /tmp/seedrun_$id.txt 2>&1; rc=$?
  echo "== $id rc=$rc"; grep -E "VIOLATION|UNDECIDED|failed obligation|OK property" /tmp/seedrun_$id.txt | head -6
done
git -C /repo checkout -- .
git -C /repo status --short | head -3
cp -a "$SAVE"/. /verif/evidence/
rm -rf "$SAVE"
