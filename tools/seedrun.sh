#!/bin/bash
# usage: seedrun.sh <patch.diff> <prop>...   -- apply a seeded change to /repo, run the given quick checks, undo
P=$1; shift
cd /repo && git apply "$P" || { echo "patch does not apply to /repo"; exit 2; }
cd /verif
for id in "$@"; do
  ./check $id --tier quick > /tmp/seedrun_$id.txt 2>&1; rc=$?
  echo "== $id rc=$rc"; grep -E "VIOLATION|UNDECIDED|failed obligation|OK property" /tmp/seedrun_$id.txt | head -6
done
git -C /repo checkout -- .
git -C /repo status --short | head -3
