#!/bin/bash
# usage: seedstore.sh <PROP> <k> <src-dir> <what> <needs>
id=$1; k=$2; src=$3; what="$4"; needs="$5"; d=/verif/seeded/$id-$k; mkdir -p $d; cp $src/patch.diff $src/demo.rs $src/notes.txt $d/
python3 - "$id" "$k" "$what" "$needs" <<'PY'
import json,sys
id,k,what,needs=sys.argv[1:5]
json.dump({"id":"%s-%s"%(id,k),"property":id,"what":what,"needs_to_manifest":needs,
 "origin":"independent sub-agent working in its own scratch worktree with only the property text",
 "confirmed":"tools/seedvalidate*.sh: full suite passes with the change (312 stable tests), demo fails with it, demo passes without it",
 "detected_by":"see DESIGN.md section 13"},open("/verif/seeded/%s-%s/meta.json"%(id,k),"w"),indent=1)
PY
