"""Per-property configuration of the checks (which units, harnesses, assumptions)."""

COMMON_TRUSTED = [
    'Verus 0.2026.09.13 (VC generation), Z3; rustc 1.98.1',
    'vstd specifications of Vec, slices, arrays, Option/Result, integer ops',
    'extraction tool /verif/tools/extract.py (text surgery; byte-for-byte self-check of every extracted span on every run)',
    'ENV-1: no allocation/slice exceeds 2^56 elements; ENV-2: usize is 64 bit',
]

U_BITS = {'spec': 'bits.spec'}

PROPS = {
    'C11': {
        'verus': [U_BITS],
        'assumptions': [
            'pre-condition of *_with_offset variants: the offset lies inside the slice (offset <= 8*len); callers in the repository are proved to respect it',
            'pre-condition of all multi-bit operations: offsets and lengths <= usize::MAX/2 (no wrap of position arithmetic)',
            'BitBuffer::from_bits* / with_*_position_at: the documented assert!/debug_assert! conditions are pre-conditions',
            'From<(&[u8], usize)> for Bits and the other From impls are not under contract (well-formedness of a fresh Bits is the debug_assert of that constructor)',
            'derive(Default) of BitBuffer replaced by an explicit, verified stand-in impl',
        ],
        'trusted_base': COMMON_TRUSTED + ['R2 wrapper verif_vec_extend_repeat (Vec::extend(repeat(z).take(n)) appends n copies of z)',
                                          'R16: `&mut vec[range]` == `&mut vec.as_mut_slice()[range]` (std definition)',
                                          'stand-ins for Backtrace / FromUtf8Error payload types of ErrorKind'],
        'not_under_contract': ['impl From<&[u8]> / From<(&[u8], usize)> / From<&BitBuffer> for Bits', 'impl From<BitBuffer> for Vec<u8>', 'impl From<Vec<u8>> for BitBuffer'],
        'explanation': 'Every BitRead/BitWrite method of (&[u8],&mut usize), (&mut [u8],&mut usize), BitBuffer and Bits, bit_string_copy and '
                       'bit_string_copy_bulked are verified by Verus against the naive bit-vector contract (copied/wrote: exactly the n destination bits '
                       'change to the source bits, everything else unchanged, cursor += n, Err iff too short, Err leaves everything untouched), for all '
                       'lengths, offsets and positions, plus the tight-length/zero-padding invariant of BitBuffer. Operation histories follow by induction '
                       'over the abstract view since every operation is specified completely on it.',
    },
}

# function-name pattern -> directed-search group of the replay binary
SEARCH_GROUPS = [
    (r'bit_string_copy|slice\.rs|buffer\.rs', 'bits'),
]
KANI_GROUP = {}
BOUNDS = {}
