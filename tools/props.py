"""Per-property configuration of the checks (which units, harnesses, assumptions)."""

COMMON_TRUSTED = [
    'Verus 0.2026.09.13 (VC generation), Z3; rustc 1.98.1',
    'vstd specifications of Vec, slices, arrays, Option/Result, integer ops',
    'extraction tool /verif/tools/extract.py (text surgery; byte-for-byte self-check of every extracted span on every run)',
    'ENV-1: no allocation/slice exceeds 2^56 elements; ENV-2: usize is 64 bit',
]
KANI_TRUSTED = [
    'Kani 0.68 / CBMC 6.11 on the real compiled crate; unwinding assertions on',
    'backtrace crate replaced by a no-op stub under Kani (diagnostics only)',
]
BITS_TRUSTED = ['R2 wrapper verif_vec_extend_repeat (Vec::extend(repeat(z).take(n)) appends n copies of z)',
                'R16: `&mut vec[range]` == `&mut vec.as_mut_slice()[range]` (std definition)',
                'R14: tail expressions let-bound so that ghost code can follow a call (pure insertion)',
                'stand-ins for Backtrace / FromUtf8Error payload types of ErrorKind']
PER_TRUSTED = BITS_TRUSTED + [
    'R1 wrappers: to_be_bytes / from_be_bytes of u64 and i64 produce / consume the big-endian bytes of the two\'s complement bit pattern',
    'assume_specification: i64::is_negative / leading_zeros / leading_ones in terms of vstd u64_leading_zeros',
    'R15: size_of::<u64>() / size_of::<i64>() == 8',
    'X.691 (08/2015) transcription in contracts/prelude/x691.rs (the oracle)',
]

U_BITS = {'spec': 'bits.spec'}
U_BITS_DEP = {'spec': 'bits.spec', 'dependency': True}
U_PER = {'spec': 'per.spec'}
U_PER_DEP = {'spec': 'per.spec', 'dependency': True}
U_LEMMAS = {'spec': 'lemmas.spec', 'dependency': True}
U_SCOPE = {'spec': 'scope.spec'}
U_SCOPE_DEP = {'spec': 'scope.spec', 'dependency': True}
U_UPER = {'spec': 'uper.spec'}
GLUE_ZOO = ['zootypes.asn', 'zoosets.asn', 'zooshapes.asn']
UPER_NOT = [
            'descriptor/bitstring.rs: impl ReadableType / WritableType for BitString (BitVec is not modelled); every other descriptor impl is under contract', 'generated write_seq / read_seq / choice content / Readable / Writable impls (walker.rs): contract VERIFIED for the zoo of unit glue (contracts/zoo/*.asn, real macro output), ASSUMED at the trait (sequence::Constraint, choice::Constraint, Readable, Writable) for every other schema',
            'bodies of the six restricted-string methods (write_ia5string, write_numeric_string, write_printable_string, write_visible_string, read_printable_string, read_visible_string): protocol-level contract ASSUMED (`@fn ... trusted`)']
UPER_TRUSTED = ['R13: Reader / Writer traits instantiated at UperReader<B> / UperWriter (trait impl extracted as inherent impl; `type Error` member dropped; `Self::Error`, `R::Error`, `W::Error` -> Error)',
                'R21 .map(Some) -> closure; R22 / R24 trusted wrappers for ToOwned::to_owned / PartialEq::ne of the DEFAULT constant; R23 tuple-pattern closure parameter desugared; R3 / R4 wrappers for String::from_utf8 / chars().count()',
                'assume_specification: Result::and_then (std definition)', 'one exec insertion in write_utf8string: `let verif_bytes = value.as_bytes();` (pure second call, for the ENV-1 axiom)']

PER_ASSUMPTIONS = [
    'trait contracts of BitRead/BitWrite are assumed for the generic T in unit per and proved for every implementation in unit bits',
    'readers of OCTET/BIT STRING: bounds ordered (lb <= ub) and ub <= usize::MAX/2 (schema constants)',
    'write_bitstring: offset + len <= usize::MAX/2',
    'conformance profile (DESIGN.md section 4): a length constraint with ub >= 64K (or only a lower bound) is encoded as constrained number by the code, not in the general form X.691 prescribes; contracts state X.691 equality only inside the profile',
]

PROPS = {
    'C11': {
        'verus': [U_BITS],
        'search_groups': ['bits'],
        'assumptions': [
            'pre-condition of *_with_offset variants: the offset lies inside the slice (offset <= 8*len); callers in the repository are proved to respect it',
            'pre-condition of all multi-bit operations: offsets and lengths <= usize::MAX/2 (no wrap of position arithmetic)',
            'BitBuffer::from_bits* / with_*_position_at: the documented assert!/debug_assert! conditions are pre-conditions',
            'From<(&[u8], usize)> for Bits and the other From impls are not under contract (well-formedness of a fresh Bits is the debug_assert of that constructor)',
            'derive(Default) of BitBuffer replaced by an explicit, verified stand-in impl',
        ],
        'trusted_base': COMMON_TRUSTED + BITS_TRUSTED,
        'not_under_contract': ['impl From<&[u8]> / From<(&[u8], usize)> / From<&BitBuffer> for Bits', 'impl From<BitBuffer> for Vec<u8>', 'impl From<Vec<u8>> for BitBuffer'],
        'explanation': 'Every BitRead/BitWrite method of (&[u8],&mut usize), (&mut [u8],&mut usize), BitBuffer and Bits, bit_string_copy and '
                       'bit_string_copy_bulked are verified by Verus against the naive bit-vector contract (copied/wrote: exactly the n destination bits '
                       'change to the source bits, everything else unchanged, cursor += n, Err iff too short, Err leaves everything untouched), for all '
                       'lengths, offsets and positions, plus the tight-length/zero-padding invariant of BitBuffer. Operation histories follow by induction '
                       'over the abstract view since every operation is specified completely on it.',
    },
    'C10': {
        'verus': [U_PER, U_BITS_DEP],
        'search_groups': ['per', 'bits'],
        'kani_thorough': [('per_cwn', 2400, True), ('per_nnbi_constrained', 3000, True), ('per_semi', 2400, True), ('per_nsnnwn', 2400, True),
                          ('per_uwn', 2400, True), ('per_2c', 2400, True)],
        'assumptions': PER_ASSUMPTIONS + [
            'readers of 2\'s-complement / unconstrained whole numbers, OCTET STRING and BIT STRING carry the safety contract and exact bit consumption in Verus; '
            'their value round trip is discharged by the complete Kani harnesses per_2c / per_uwn (numbers) and is not yet under a Verus contract for the strings',
        ],
        'trusted_base': COMMON_TRUSTED + PER_TRUSTED + KANI_TRUSTED,
        'explanation': 'All 13 PackedWrite methods are verified against X.691 spec functions (x691_cwn, x691_semi, x691_nsnnwn, x691_uwn, x691_2c, x691_len*, '
                       'x691_index, x691_octets, x691_bitstr incl. 16K fragmentation for every length): Ok <=> admissible arguments (and room), written bits == spec, '
                       'frame; inadmissible arguments give the documented ErrorKind with nothing written; no overflow, no panic. PackedRead methods are verified '
                       'against functional decoder specs (dec_*), which are tied to the encoders by spec-level lemmas. The Kani harnesses re-check the fixed-width '
                       'primitives on the compiled crate for all (lb, ub, value) against an executable oracle (complete: loops bounded by operand width).',
    },
    'C06': {
        'verus': [U_PER, U_UPER, U_BITS_DEP],
        'glue': GLUE_ZOO,
        'glue_filter': r'verif_g13_consts_c_',
        'search_groups': ['per', 'charset', 'strings'],
        'bounded_search': [('strings', 'BOUNDED stand-in for the BODIES of write_utf8string / write_ia5string / write_numeric_string / write_printable_string / write_visible_string (str::chars() loops outside Verus; '
                                       'only their protocol-level contract is assumed in unit uper): through the real Writer API, 5 string types x 5 SIZE constraint variants (none, 1..4, 2..2, 0..3 extensible, 2..3) x every string of '
                                       'length <= 4 (and a stride through length 5) over a probe alphabet of edge characters and their invalid neighbours: Ok ==> alphabet and SIZE admissible and the value reads back unchanged; '
                                       'a character outside the alphabet or a count outside a non-extensible SIZE ==> Err; an admissible value is not rejected')],
        'kani_quick': [('charset_is_valid', 120, True)],
        'assumptions': PER_ASSUMPTIONS + ['UperWriter::write_extensible_bit_and_length_or_err is under contract in unit uper; the BODIES of the restricted-string writers (chars() loops) are not: their SIZE / alphabet checks are covered by the bounded stand-in `strings` '
                                          '(exhaustive within its stated bound, never counted as discharged) and, below them, by the verified PackedWrite layer and the complete Kani proof of Charset::is_valid',
                                          'that the bounds the encoder checks against (MIN / MAX / EXTENSIBLE of the generated constraint types) are those of the SCHEMA is decided for the 43 components of the glue zoo that carry an `-- @expect-c` line '
                                          '(unit glue, rule G13: generated constants proved equal to the hand-derived ones; bounded in programs) and assumed for every other schema'],
        'trusted_base': COMMON_TRUSTED + PER_TRUSTED + KANI_TRUSTED,
        'explanation': 'For every PackedWrite entry point the post-condition r is Ok ==> admissible(args) is verified (INTEGER range incl. single-value ranges, '
                       'length determinant bounds, SIZE of octet/bit strings, CHOICE/ENUMERATED index), with the error kind and "nothing written" on rejection; '
                       'extensible out-of-root values are proved to take the extension form. Charset::is_valid equals the X.680 alphabets for all chars (Kani, complete).',
    },
    'C03': {
        'verus': [U_SCOPE, U_UPER, U_PER_DEP, U_BITS_DEP],
        'glue': GLUE_ZOO,
        'glue_filter': r'::(read_seq|write_seq|read|write)$|verif_g13_consts_(?!c_)',
        'search_groups': ['seq'],
        'bounded_search': [('seq', 'all SEQUENCE shapes with n <= 4 components x kinds {mandatory, OPTIONAL, DEFAULT} x marker position x all presence patterns through the real Writer/Reader API against an X.691 reference encoding; cross-version pairs with up to 5 components')],
        'assumptions': [
            'unit uper proves that the real write_sequence / read_sequence enter the generated glue in exactly the state the drivers start from: scope == wscope_built / rscope_built over the constants of the Constraint, cursor directly behind the preamble, '
            'every preamble bit zero (writer) / the extension bit as found in the input (reader); lemma_built_is_wroot / lemma_built_is_rroot identify these with the drivers\' root scopes',
            'VERIFIED for the zoo of unit glue (three schemas, real macro output of the current tree, rules G1-G11), ASSUMED for every other schema: the generated write_seq/read_seq call the presence protocol exactly once per component '
            '(every Writer/Reader method and write_value/read_value carry the abstract protocol step wstep_abs / rstep_abs; write_seq must leave an exhausted scope, read_seq must satisfy rglue_post) and the constants STD_OPTIONAL_FIELDS / FIELD_COUNT / EXTENDED_AFTER_FIELD are consistent with the components visited',
            'NOT decided by contracts: that the constants are those of the SCHEMA (position of the extension marker, which components are OPTIONAL): the generator is text emission; bounded stand-ins seq / zoo compare with hand-composed reference encodings',
            'contracts of BitBuffer / PackedWrite / PackedRead are assumed in unit scope and proved in units bits / per (same sidecar text)',
        ],
        'trusted_base': COMMON_TRUSTED + PER_TRUSTED + ['R17: `&mut impl Trait` argument named as generic parameter', 'R10a: Option::as_mut().filter().map().transpose() chain rewritten to if-let/match (closure captured a &mut)',
                                                        'R11: debug_assert!(c, msg) -> assert!(c)', 'stand-ins for derive(Clone) on Scope and derive(Default) on UperWriter (verified)',
                                                        'assume_specification: Option<Result<T,E>>::transpose'],
        'explanation': 'Scope::write_into_field and Scope::read_from_field (the real functions, all four variants) are verified against functional step contracts; on top of them two driver '
                       'lemmas are verified as exec functions whose loop calls the real step function once per component with an arbitrary payload in between: for ANY number of '
                       'components, any mix of mandatory/OPTIONAL/DEFAULT, any marker position and any presence pattern the preamble carries exactly one presence bit per optional root '
                       'component in order, the extension bit is set iff an addition is present, the addition header is count-1 as normally small number followed by one bit per addition, '
                       'Err <=> first addition absent and a later one present (ExtensionFieldsInconsistent), the scope ends exhausted; the reader driver reports exactly those bits.',
    },
    'C05': {
        'verus': [U_SCOPE, U_UPER, U_PER_DEP, U_BITS_DEP],
        'glue': GLUE_ZOO,
        'glue_filter': r'::(read_seq|write_seq|read|write)$|verif_g13_consts_(?!c_)',
        'search_groups': ['seq'],
        'bounded_search': [('seq', 'all SEQUENCE shapes with n <= 4 components x kinds {mandatory, OPTIONAL, DEFAULT} x marker position x all presence patterns through the real Writer/Reader API against an X.691 reference encoding; cross-version pairs with up to 5 components')],
        'assumptions': [
            'same modelling assumptions as C03 (generated glue calls the protocol once per component)',
            'direction V2 -> V1 with unknown additions PRESENT (repaired in 1f34165, formerly KF-C05-unknown-additions): the bitmap range of the scope keeps ALL transmitted presence bits (scope_read_step, drive_read post-condition); '
            'UperReader::skip_unknown_extension_additions is verified to terminate and to leave no presence bit behind (each set one is skipped as open type through with_buffer, which ends at the announced end); read_sequence is verified to call it after the generated code and to hand an exhausted scope to scope_pushed',
        ],
        'trusted_base': COMMON_TRUSTED + PER_TRUSTED,
        'explanation': 'The reader driver lemma is stated for an ARBITRARY transmitted addition count k (read from the input) against the local count m: additions j < min(k, m) report bit j of the '
                       'transmitted bitmap, additions j >= k are absent, the cursor moves past all k bitmap bits; without the extension bit every addition is absent. Unbounded in counts and shapes.',
    },
    'C01': {
        'verus': [U_UPER, U_SCOPE, U_PER, U_BITS_DEP, U_LEMMAS],
        'glue': GLUE_ZOO,
        'search_groups': ['zoo', 'seq', 'per'],
        'bounded_search': [
            ('zoo', 'BOUNDED in programs (6 generated types: extensible SEQUENCE with OPTIONAL last root component, OPTIONAL/DEFAULT/extensible INTEGER mix, extensible ENUMERATED, extensible CHOICE, constrained SEQUENCE OF, nesting) '
                    'compiled by the real proc macro of the current tree; per run a few thousand value batches: each value alone and all of them back-to-back in one writer, bit-exact against hand-composed X.691 reference encodings, decoded back, remaining bits == 0'),
            ('seq', 'all SEQUENCE shapes with n <= 4 components x kinds x marker position x presence patterns through the real Writer/Reader API; cross-version pairs <= 5 components'),
        ],
        'assumptions': [
            'PROVED (Verus, unbounded): bit layer exact (C11); every PER primitive writer == X.691 spec function and every primitive reader == functional decoder, tied by spec-level round-trip lemmas dec(enc(v) ++ tail) == (v, len) '
            'for constrained / semi-constrained / normally-small / unconstrained whole numbers and the length determinant (unit lemmas), all stated relative to an ARBITRARY prefix and tail, which is what makes back-to-back composition sound; '
            'the presence protocol of SEQUENCE/SET writer and reader for any shape (C03/C05 drivers); open-type wrap == general length + padded content, reader ends exactly at the announced end',
            'unit uper (Verus, every constraint instantiation): 14 of 18 Writer and 17 of 19 Reader methods of the real impls and the descriptor impls: safety tier everywhere; functional API-level contracts outside a SEQUENCE scope for '
            'write_boolean / write_null / write_number / write_octet_string / write_bit_string / write_enumerated (bits == x691_*), read_boolean, read_number (constrained form), read_octet_string (fragment stream)',
            'unit uper, COMPOSITIONAL: WritableType::x_enc / ReadableType::x_dec are trait-level spec functions with the contracts `scope None ==> appended bits == x_enc(v)` and `scope None ==> result == x_dec(input)`; the real descriptor impls '
            '(writer: Boolean, NullT, Integer, OctetString, Enumerated, Option<T>, DefaultValue<T, C>, SequenceOf<T, C>; reader: Boolean, NullT, Integer with bounds, Enumerated, Option<T>) are verified against them, and the lemmas lemma_rt_desc_boolean / _integer / _enumerated / _option '
            'prove dec(enc(v) ++ tail) == (v, len) for these codecs relative to an arbitrary prefix and tail (Option for ANY element codec that round trips), given the laws of the generated value types (n_from(n_i64(v)) == v, e_from(e_index(v)) == Some(v))',
            'unit glue (Verus on the REAL macro output for contracts/zoo/*.asn, bounded in programs, unbounded in values): every generated function satisfies the trait contracts assumed in unit uper (protocol discipline of read_seq / write_seq, CHOICE dispatch laws, write_content emits c_enc); '
            'per generated ENUMERATED the law e_from(e_index(v)) == Some(v) and the spec-level round trip x_dec(prefix ++ x_enc(v) ++ tail) == (v, len) (G9); per bounded INTEGER constraint the round trip on [MIN, MAX] with the Number conversions verified as Rust casts (G10); '
            'DefaultValue<T, C> and Complex<V, C> / the blanket impl carry x_dec (lemma_rt_desc_default; t_enc / t_dec spec twins G11) so that nesting composes',
            'NOT PROVED, bounded stand-in only: payload equality of generated SEQUENCE/SET types (the glue contract is about the protocol, not about which value goes where), the reader-side decoders of Vec-typed descriptors (strings, SEQUENCE OF: Verus has no extensional equality on Vec), the six restricted-string methods. '
            'Their composition is exercised on the zoo and the shape enumeration, never counted as discharged',
            'value round trip of fragmented OCTET/BIT STRING readers: safety + consumption proved, value equality via regression probes and search only',
            'known findings KF-C01-seqof-16k, KF-C01-string-16k, KF-C01-open-type-16k: sizes >= 16K elements (which the property explicitly includes) do not round trip for SEQUENCE OF, restricted strings and large extension additions',
        ],
        'trusted_base': COMMON_TRUSTED + PER_TRUSTED,
        'not_under_contract': UPER_NOT,
        'explanation': 'Layered decision. Layers 1-2 (bits, PER primitives, presence protocol, open types) are discharged by Verus for all inputs with contracts that are relative to an arbitrary '
                       'prefix/tail; layer 3 (trait impl + generated glue) is outside the contracts and is covered by labelled bounded stand-ins on real macro output. The check therefore decides the property '
                       'for the primitives and the protocol and only explores it for whole generated types.',
    },
    'C02': {
        'verus': [U_UPER, U_PER, U_SCOPE, U_BITS_DEP, U_LEMMAS],
        'kani_thorough': [('per_cwn', 2400, True), ('per_nnbi_constrained', 3000, True), ('per_semi', 2400, True), ('per_nsnnwn', 2400, True),
                          ('per_uwn', 2400, True), ('per_2c', 2400, True)],
        'glue': GLUE_ZOO,
        'search_groups': ['zoo', 'per', 'seq'],
        'bounded_search': [
            ('zoo', 'BOUNDED in programs: 6 generated types through the real proc macro, bit-exact against hand-composed X.691 reference encodings (see C01)'),
            ('seq', 'all SEQUENCE shapes n <= 4 against the X.691 reference preamble / addition header / open types'),
        ],
        'assumptions': PER_ASSUMPTIONS + [
            'PROVED (Verus, unbounded, inside the profile of DESIGN.md section 4): written bits == x691_* spec function for every PackedWrite method; the SEQUENCE preamble, extension bit, addition count (normally small number), '
            'addition bitmap and open-type wrapping produced by the real Scope / with_buffer code equal the X.691 19 layout for any shape',
            'the spec functions in contracts/prelude/x691.rs are a transcription of X.691 (08/2015) by hand: they ARE the oracle and are trusted; a second, executable transcription (replay/src/oracle.rs) is compared with the real code on every run',
            'unit uper (Verus): the type-level rules of write_boolean / write_null / write_number (x691_integer: 13.1 extension bit, 13.2.2 constrained, 13.2.4 unconstrained) / write_octet_string / write_bit_string / write_enumerated are post-conditions of the real Writer impl for every constraint instantiation',
            'unit uper, COMPOSITIONAL: the trait WritableType carries a spec function x_enc (the X.691 encoding of a value outside a SEQUENCE scope) and the contract `scope is None && Ok && x_ok(v) ==> appended bits == x_enc(v)`; '
            'the real descriptor impls Boolean, NullT, Integer, OctetString, Enumerated, Option<T>, DefaultValue<T, C>, SequenceOf<T, C> (length part ++ concatenation of the element encodings, loop invariant over the real for loop) are verified against it, '
            'so the encoding of every type built from these descriptors by arbitrary nesting is proved bit-exact (below the 16K fragmentation threshold of the known findings). Sequence<C>, Choice<C>, Utf8String have x_ok == false (not described compositionally)',
            'write_choice (X.691 23): index, then a root alternative in place or an extension alternative as open type (general length + the alternative padded with 0 to whole octets, lemma_fresh_is_bits), '
            'given the contract of the generated write_content (it emits c_enc of the selected alternative): VERIFIED for the zoo of unit glue (c_enc is the spec twin of the generated match, rule G4), assumed otherwise; Choice<C>::x_enc / Complex<V, C>::x_enc make CHOICE and referenced types compose',
            'unit glue: the generated constants are checked for CONSISTENCY (1 <= STD_VARIANT_COUNT <= VARIANT_COUNT, indices < VARIANT_COUNT, MIN <= MAX, MIN_T/MAX_T == MIN/MAX, FIELD_COUNT / STD_OPTIONAL_FIELDS / EXTENDED_AFTER_FIELD against the components visited) on the zoo',
            'NOT PROVED, bounded stand-in only: the character strings at the API level and that the constants emitted by walker.rs are those of the SCHEMA (bounded zoo against hand-composed reference encodings)',
        ],
        'trusted_base': COMMON_TRUSTED + PER_TRUSTED + KANI_TRUSTED,
        'not_under_contract': UPER_NOT + ['constraint constants emitted by walker.rs'],
        'explanation': 'Bit-exactness against X.691 is a Verus post-condition of every primitive writer and of the sequence / open-type machinery (unbounded); Kani re-checks the fixed-width primitives on the compiled crate against an '
                       'executable oracle. Whole generated types are compared with reference encodings on a bounded zoo (labelled stand-in).',
    },
    'C04': {
        'verus': [U_BITS, U_PER, U_SCOPE, U_UPER],
        'kani_quick': [('der_readers_total', 300, True), ('proto_readers_total', 300, True)],
        'search_groups': ['decode', 'bits', 'protodec'],
        'bounded_search': [('decode', 'SAMPLED (not exhaustive, not a proof): random, truncated and bit-flipped input, aligned and unaligned, declared bit length <= 8*len, through every method of '
                                      'the real `impl Reader for UperReader` (15 type kinds x 9 size / 10 number / 5 enumerated / 4 choice constraint variants, nested SEQUENCE / SEQUENCE OF / open types); '
                                      'contract: Ok or Err, no panic / abort, cursor inside the input, a decoded value never larger than the bits consumed for it'),
                           ('protodec', 'SAMPLED (not exhaustive, not a proof): random bytes and truncated / bit-flipped / overwritten / extended valid encodings through the real ProtobufReader for 9 generated types '
                                        '(numbers, OPTIONAL members, embedded messages, lists, CHOICE in CHOICE, ENUMERATED, BIT STRING, root SEQUENCE OF): Ok or Err, no panic, returns within 5 s')],
        'assumptions': [
            'Verus proves, for every function under contract, absence of panics (index, slice range, arithmetic overflow, unwrap, assert!) and termination (decreases on every loop), the cursor '
            'invariant pos <= limit <= 8*len on exit -- also on Err -- and that the input bytes and the visible limit are unchanged (frame): bit layer, all 13 PackedRead methods, Scope::read_from_field, '
            'the UperReader helpers (length determinant, indexes, sub-slice, with_buffer)',
            'allocation: read_bits_chunked is proved to hold at most (bits consumed so far)/8 + 16K octets at every exit, also on failure; further fragments are proved <= 64K octets each',
            'unit uper: 17 of the 19 methods of `impl Reader for UperReader` are verified for every constraint instantiation (safety tier: wf in => wf out on Ok and Err, same input, scope nesting preserved; no panic path; every loop with decreases / bounded range); read_printable_string and read_visible_string (iterator adapters) are NOT under contract and are exercised by the sampled decode group only',
            'the generated read_seq / read_content glue is ASSUMED to satisfy the trait-level contract (fresh root scope in => well-formed reader on the same input out, exhausted scope on success)',
            'ProtobufReader (proto_read.rs: index_enclosed / read_content_offset_and_length) is NOT under contract; only the protobuf primitives (varint, fixed, tag, bytes) are proved total by Kani',
            'DER: the primitives the crate implements (length, identifier, boolean, integer) are proved total by Kani for all inputs up to 10 octets (complete for these loop bounds)',
            'a SEQUENCE OF of zero-width elements legitimately yields a count that is not bounded by the input size (X.691); not counted as unbounded work',
        ],
        'trusted_base': COMMON_TRUSTED + PER_TRUSTED + KANI_TRUSTED + UPER_TRUSTED,
        'not_under_contract': UPER_NOT + ['ProtobufReader', 'BitVec (descriptor/bitstring.rs)', 'DER reader beyond the primitives'],
        'explanation': 'Totality and in-bounds reads are discharged per function by Verus for the whole bit and PER layers and the scope/open-type machinery of the UPER reader: every reader method has '
                       'wf(old) ==> wf(final) && same input && cursor monotone, on Ok AND on Err, with no panic path (Verus checks every index, cast and arithmetic operation), and every loop has a '
                       'decreases clause tied to the remaining input. The DER and protobuf primitives are proved total on the compiled code by Kani. What is left outside the contracts is named above and covered by a sampled search only.',
    },
    'C19': {
        'verus': [{'spec': 'scope.spec', 'variants': [(), ('descriptive-deserialize-errors',)]}, U_PER_DEP, U_BITS_DEP],
        'static_cfggate': True,
        'differential': True,
        'search_groups': [],
        'assumptions': [
            'the two configurations are decided against ONE contract: the same sidecar text is verified over the extraction with and without --cfg feature="descriptive-deserialize-errors"; the contract is functional '
            '(result value, error kind, final cursor, final scope are functions of the input), hence equal contracts give equal results. Functions under this dual verification: Scope::read_from_field and every UperReader helper that carries gated code',
            'for the gated statements inside `impl Reader for UperReader` (not under a Verus contract) the decision is the syntactic frame rule of tools/cfggate.py: a gated statement that only pushes onto the diagnostics record, '
            'with no `?`/return/break/continue, no `&mut` to anything else and no assignment cannot influence cursor, scope, result or control flow (Rust ownership). A gated site outside the rule whose function is not under contract makes the check UNDECIDED (exit 2), never a violation',
            'ScopeDescription constructors (mod scope_description_impl) are opaque; they take values / shared references only and are scanned for unsafe, statics, interior mutability and panicking constructs on every run',
            'Display for Error differs between the builds by design (it prints the diagnostics); not part of the property',
            'the differential trace is a sampled stand-in (labelled, not counted as proof)',
        ],
        'trusted_base': COMMON_TRUSTED + PER_TRUSTED + ['stand-in prelude/scope_description.rs for the diagnostics record (feature-on variant only): external_body constructors, Clone for Error',
                                                        'R19: format!() -> opaque String; R20: crate::rw:: path flattened',
                                                        'Rust ownership/borrowing as enforced by rustc (for the frame rule)'],
        'explanation': 'Three layers: (1) Verus verifies the real reader helpers twice, with the gated parameters/arguments/statements compiled out and compiled in, against the same functional contracts; '
                       '(2) every one of the gated sites in uper.rs / err.rs is classified on every run and must fall under the ownership-based frame rule or inside a dually verified function; '
                       '(3) a differential trace through both builds of the real crate serves as counterexample engine.',
    },
    'C15': {
        'verus': [{'spec': 'inttype.spec'}],
        'search_groups': ['inttext'],
        'bounded_search': [('inttext', 'BOUNDED stand-in for the text emission of the *_min()/*_max() accessors (format_number_nicely / add_min_max_fn_if_applicable, String code): generated source of INTEGER (min..max) '
                                       'as tuple struct and as SEQUENCE field, accessor bodies parsed back and compared with the declared bounds over the boundary grid of the property ({0, +-1, +-2^k, +-2^k+-1 : k <= 63} U small ints), plain, extensible and with an open upper bound; 2296 ranges')],
        'kani_quick': [('inttype_fixed_both_bounds', 300, True), ('inttype_extensible', 300, True)],
        'assumptions': [
            'claimed for constraints with a given lower bound (KF-C15-min carve-out: an absent lower bound is a recorded known finding)',
            'the generated *_min/*_max accessors print the Range stored in the RustType (text emission of generate/rust.rs, not under contract); the stored Range is proved equal to the declared bounds',
            '`<Resolved as ResolveState>::RangeType` resolved to i64 (rule R18, checked against resolve.rs on every run); impl Model<Rust> header replaced by a unit struct',
        ],
        'trusted_base': COMMON_TRUSTED + KANI_TRUSTED + ['assume_specification: i64::abs', 'R8: parameter `int` alpha-renamed (Verus keyword)'],
        'explanation': 'asn_fixed_integer_to_rust_type and asn_extensible_integer_to_rust (the real functions with the real RustType/Range/Integer definitions) are verified for ALL (min, max): '
                       '(a) every permitted value is representable, (b) no narrower type of that signedness fits both bounds, (c) the stored range equals the declared bounds (every `as` cast is '
                       'proved lossless), (d) extensible ranges map to 64-bit types, signed iff the lower bound is negative. Loop free, complete. Kani re-checks (a), (b), (d) on the compiled code through the hook.',
    },
    'C12': {
        'verus': [{'spec': 'resolve.spec'}],
        'search_groups': ['resolve'],
        'bounded_search': [('resolve', 'BOUNDED stand-in for the scope lookup and the TryResolve impls (iterator / String code outside both verifiers): the property statement itself on the real parser + resolver -- '
                                       'resolve(module with references) == resolve(module with literals) -- for INTEGER ranges, SIZE ranges, fixed SIZE, DEFAULT over 8 placements (same module, sibling by name, sibling by OID, '
                                       'OID-carrying sibling imported by name, missing module => Err, non-integer => Err, a chain of imports over two hops, two import clauses whose symbols differ only in case: types from one module, values from another) '
                                       'x decoy module (none / without OID / with OID) x 6 load orders x a grid of bounds (incl. coinciding bounds and 0..MAX): 1200 module graphs')],
        'assumptions': [
            'WHICH declaration a name finds (ResolveScope::value_reference / definition / model_with_imported_item: local before imported, import matched by OID or name, independence of load order) is iterator/String code outside Verus; it is abstracted to the uninterpreted lookups lookup_value / lookup_definition (a Kani run over concrete module graphs does not terminate: measured 1500 s / 10 GB)',
            'Size::try_resolve and Size::reconsider_constraints ARE under contract (every bound is what the resolver yields, unresolvable => Err, result normalised like a literal SIZE); '
            'Integer::try_resolve IS under contract (a resolved bound is a value the resolver yields for it, absent stays absent, an unresolvable bound => Err, extension marker kept); '
            'TryResolve::try_resolve of BitString and the recursive Type::try_resolve are not under contract',
            'the parser normalises a literal (0..MAX) to an unconstrained range but not a referenced one; this happens before resolution and is outside this check',
            'format!() diagnostics replaced by an opaque String (R19); error messages are not pinned',
        ],
        'trusted_base': COMMON_TRUSTED + ['stand-ins for ValueReference / Definition / Type<Unresolved> / ResolveScope (only the fields the four resolve() bodies touch)', 'external_body Clone for LiteralValue'],
        'not_under_contract': ['ResolveScope::value_reference / definition / model_with_imported_item / try_resolve', 'MultiModuleResolver::try_resolve_all', 'TryResolve impls of BitString, Type'],
        'explanation': 'The four real `impl Resolver<T> for ResolveScope` bodies (T = usize, i64, LiteralValue, Type) are verified for all names and values: a literal resolves to itself, a reference to exactly '
                       'the value the lookup finds, a missing declaration gives FailedToResolveReference/Type with that name, a non-integer where an integer is needed gives FailedToParseLiteral, and a negative '
                       'integer is never turned into a usize bound. Lemmas over these contracts state the property for the resolution step (reference resolves like the literal it names).',
    },
    'C20': {
        'kani_quick': [('der_length_roundtrip', 300, True), ('der_identifier_roundtrip', 300, True), ('der_boolean', 300, True),
                       ('der_integer_i64_roundtrip', 300, True), ('der_integer_u64_roundtrip', 300, True), ('der_readers_total', 300, True),
                       ('der_enumerated_roundtrip', 900, True), ('der_number_octet_roundtrip', 900, True),
                       ('der_enumerated_tagged_roundtrip', 900, True), ('der_length_short_reads', 300, True)],
        'kani_thorough': [('der_enum_wide_roundtrip', 1800, True), ('der_number_tlv_roundtrip', 1800, True), ('der_number_narrow_roundtrip', 3000, True)],
        'assumptions': ['std::io::Write for Vec<u8> / std::io::Read for &[u8] as compiled (part of the checked program); short reads: one harness (der_length_short_reads, which also covers read_integer_u64) drives a reader that delivers one octet per call'],
        'trusted_base': KANI_TRUSTED,
        'explanation': 'Loop-free / width-bounded Kani harnesses over ALL u64 lengths, all four tag classes x number < 64, all octets, all i64/u64: read(write(v)) == v, '
                       'exact byte consumption; any non-zero octet reads as true. Complete proofs (<= 10 bytes flow, unwinding assertions pass).',
    },
    'C17': {
        'kani_quick': [('proto_varint_roundtrip', 300, True), ('proto_sint64_roundtrip', 300, True), ('proto_sint32_roundtrip', 300, True),
                       ('proto_uint32_bool_roundtrip', 300, True), ('proto_tag_roundtrip', 300, True), ('proto_sfixed32_roundtrip', 300, True)],
        'search_groups': ['proto'],
        'bounded_search': [('proto', 'BOUNDED stand-in for ProtobufWriter / ProtobufReader (Writer/Reader impls, tag_counter discipline; Vec/String state machine outside both verifiers): 9 generated types compiled by the real proc macro '
                                     '(every integer width/sign class around the i32/u32/i64 thresholds, OPTIONAL members, embedded SEQUENCE incl. empty ones followed by further fields, SEQUENCE OF messages / numbers, CHOICE in CHOICE, '
                                     'ENUMERATED, OCTET STRING, BIT STRING incl. empty), 12000 boundary-heavy values: both writer back ends produce identical bytes and the bytes read back equal')],
        'assumptions': ['only the protobuf primitives (ProtoRead/ProtoWrite) are decided; the tag_counter discipline of ProtobufReader/Writer over generated types is not under contract'],
        'trusted_base': KANI_TRUSTED,
        'not_under_contract': ['ProtobufWriter / ProtobufReader (Writer/Reader impls, State.tag_counter)', 'SliceOrVec back ends', 'BitVec trailing-length representation'],
        'explanation': 'varint (byte-exact LEB128, <= 10 bytes), zig-zag sint32/sint64, uint32, bool, tag (field < 2^29, four formats), sfixed32: round trip for ALL values (Kani, complete).',
    },
    'C16': {
        'glue': GLUE_ZOO,
        'glue_filter': r'verif_g12_order_|verif_g13_order_',
        'kani_quick': [('tag_order', 120, True), ('rusttype_universal_tags', 120, True)],
        'search_groups': ['setorder'],
        'bounded_search': [('setorder', 'BOUNDED stand-in for sort_fields_canonically / assign_implicit_tags / TagResolver (Kani exhausts memory on Vec<Field>; String/iterator code): 6 SET definitions compiled by the real proc macro of the '
                                        'current tree (explicit tags of all four classes, untagged builtin types incl. SEQUENCE OF / SET OF, automatic tagging, extension additions after the root, untagged references to a tagged type and to an '
                                        'extensible CHOICE), 256 values each: the SET encodes exactly like the SEQUENCE whose components are written in the canonical order worked out by hand (wire order and presence-bit order), and decodes back')],
        'assumptions': ['sort_fields_canonically sorts by (extension?, Tag) with the compiled derive(Ord) verified here; the sort call itself and assign_implicit_tags are not discharged (Kani exhausts memory on Vec<Field>)',
                        'TagResolver through references/imports and the text emission of read_seq/write_seq are not under contract'],
        'trusted_base': KANI_TRUSTED,
        'not_under_contract': ['AsnDefWriter::sort_fields_canonically', 'AsnDefWriter::assign_implicit_tags', 'TagResolver'],
        'explanation': 'Tag::cmp / partial_cmp / eq of the compiled derive equal the X.680 8.6 order (class UNIVERSAL < APPLICATION < context < PRIVATE, then number) '
                       'for ALL pairs of tags; RustType::tag() returns the UNIVERSAL tag of each builtin type.',
    },
}

# function-name pattern -> directed-search group of the replay binary
SEARCH_GROUPS = [
    (r'bit_string_copy|slice\.rs|buffer\.rs', 'bits'),
    (r'^glue::', 'zoo'),     # failed obligation on macro output: the zoo group runs the same generated types
]
KANI_GROUP = {'charset_is_valid': 'charset', 'per_cwn': 'per', 'per_nnbi_constrained': 'per', 'per_semi': 'per', 'per_nsnnwn': 'per', 'per_uwn': 'per', 'per_2c': 'per',
              'per_length_determinant': 'per', 'per_index': 'per'}
BOUNDS = {}
