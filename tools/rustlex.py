"""Minimal Rust lexer + structural queries used by extract.py.

Only what is needed to *locate* items, function signatures, bodies, loops and
closures by position; no parsing of expressions.  Everything is positional
(byte offsets into the decoded source string), so text can be copied verbatim.
"""
import re

IDENT_START = re.compile(r'[A-Za-z_]')
IDENT = re.compile(r'[A-Za-z_][A-Za-z0-9_]*')
NUM = re.compile(r'[0-9][0-9A-Za-z_]*(\.[0-9][0-9A-Za-z_]*)?')


class Tok:
    __slots__ = ('kind', 'start', 'end', 'text', 'match', 'depth')

    def __init__(self, kind, start, end, text):
        self.kind = kind
        self.start = start
        self.end = end
        self.text = text
        self.match = -1     # index (in sig list) of matching bracket
        self.depth = 0      # brace/paren/bracket depth *before* this token

    def __repr__(self):
        return '%s(%r@%d)' % (self.kind, self.text, self.start)


def lex(src):
    """Return list of all tokens (including whitespace and comments)."""
    toks = []
    i = 0
    n = len(src)
    while i < n:
        c = src[i]
        if c.isspace():
            j = i + 1
            while j < n and src[j].isspace():
                j += 1
            toks.append(Tok('ws', i, j, src[i:j]))
            i = j
        elif src.startswith('//', i):
            j = src.find('\n', i)
            if j < 0:
                j = n
            toks.append(Tok('lc', i, j, src[i:j]))
            i = j
        elif src.startswith('/*', i):
            depth = 1
            j = i + 2
            while j < n and depth > 0:
                if src.startswith('/*', j):
                    depth += 1
                    j += 2
                elif src.startswith('*/', j):
                    depth -= 1
                    j += 2
                else:
                    j += 1
            toks.append(Tok('bc', i, j, src[i:j]))
            i = j
        elif c == '"' or (c in 'b' and src.startswith('b"', i)):
            j = i + (2 if c == 'b' else 1)
            while j < n and src[j] != '"':
                if src[j] == '\\':
                    j += 1
                j += 1
            j += 1
            toks.append(Tok('str', i, j, src[i:j]))
            i = j
        elif c == 'r' and re.match(r'r#*"', src[i:i + 8] or ''):
            m = re.match(r'r(#*)"', src[i:])
            hashes = m.group(1)
            endpat = '"' + hashes
            j = src.find(endpat, i + len(m.group(0)))
            j = n if j < 0 else j + len(endpat)
            toks.append(Tok('str', i, j, src[i:j]))
            i = j
        elif c == "'":
            # char literal or lifetime
            m = re.match(r"'(\\.[^']*|[^'\\])'", src[i:i + 12])
            if m:
                j = i + len(m.group(0))
                toks.append(Tok('char', i, j, src[i:j]))
                i = j
            else:
                m = IDENT.match(src, i + 1)
                j = m.end() if m else i + 1
                toks.append(Tok('life', i, j, src[i:j]))
                i = j
        elif IDENT_START.match(c):
            m = IDENT.match(src, i)
            j = m.end()
            toks.append(Tok('id', i, j, src[i:j]))
            i = j
        elif c.isdigit():
            m = NUM.match(src, i)
            j = m.end()
            # do not swallow `..` of a range: `0..len`
            txt = src[i:j]
            if '.' in txt and src.startswith('..', i + txt.index('.')):
                j = i + txt.index('.')
            toks.append(Tok('num', i, j, src[i:j]))
            i = j
        else:
            toks.append(Tok('p', i, i + 1, c))
            i += 1
    return toks


OPEN = {'{': '}', '(': ')', '[': ']'}
CLOSE = {'}': '{', ')': '(', ']': '['}


class Source:
    def __init__(self, path, text):
        self.path = path
        self.text = text
        self.all = lex(text)
        self.sig = [t for t in self.all if t.kind not in ('ws', 'lc', 'bc')]
        stack = []
        depth = 0
        for idx, t in enumerate(self.sig):
            if t.kind == 'p' and t.text in OPEN:
                t.depth = depth
                stack.append(idx)
                depth += 1
            elif t.kind == 'p' and t.text in CLOSE:
                depth -= 1
                t.depth = depth
                if stack:
                    o = stack.pop()
                    self.sig[o].match = idx
                    t.match = o
            else:
                t.depth = depth

    # ---- helpers -------------------------------------------------------
    def tok_index_at(self, pos):
        """index in self.sig of first token with start >= pos"""
        lo, hi = 0, len(self.sig)
        while lo < hi:
            mid = (lo + hi) // 2
            if self.sig[mid].start < pos:
                lo = mid + 1
            else:
                hi = mid
        return lo

    def line_of(self, pos):
        return self.text.count('\n', 0, pos) + 1

    def line_start(self, pos):
        return self.text.rfind('\n', 0, pos) + 1

    def line_end(self, pos):
        j = self.text.find('\n', pos)
        return len(self.text) if j < 0 else j + 1


ITEM_KW = ('fn', 'struct', 'enum', 'trait', 'impl', 'const', 'static', 'type', 'mod', 'use', 'macro_rules')


class Item:
    """A syntactic item: [attr_start, end) with keyword, name/header and (optional) block."""

    def __init__(self):
        self.kind = None
        self.name = None        # identifier, or normalised header for impl
        self.attr_start = None  # first attribute / doc comment token start
        self.start = None       # start of visibility / keyword
        self.end = None         # exclusive end
        self.block_open = None  # sig index of '{' (if any)
        self.block_close = None
        self.kw_index = None    # sig index of the keyword
        self.attrs = []         # list of (start, end, text) attribute spans

    def __repr__(self):
        return 'Item(%s %s)' % (self.kind, self.name)


def norm_ws(s):
    s = re.sub(r'\s+', ' ', s.strip())
    s = re.sub(r'\s*([<>(),&:\[\]])\s*', r'\1', s)
    return s


def items_in(src, lo, hi):
    """Items between sig indices [lo, hi) that sit at the depth of token lo."""
    sig = src.sig
    out = []
    i = lo
    while i < hi:
        item = Item()
        j = i
        # attributes and doc comments (doc comments are not in sig; recover from positions later)
        while j < hi and sig[j].text == '#' and j + 1 < hi and sig[j + 1].text in ('[', '!'):
            k = j + 1
            if sig[k].text == '!':
                k += 1
            close = sig[k].match
            item.attrs.append((sig[j].start, sig[close].end, src.text[sig[j].start:sig[close].end]))
            j = close + 1
        if j >= hi:
            break
        item.start = sig[j].start
        item.attr_start = item.attrs[0][0] if item.attrs else item.start
        # visibility / qualifiers
        k = j
        if sig[k].text == 'pub':
            k += 1
            if sig[k].text == '(':
                k = sig[k].match + 1
        while sig[k].text in ('unsafe', 'async', 'default', 'extern') or (
                sig[k].text == 'const' and sig[k + 1].text in ('fn', 'unsafe', 'async')):
            k += 1
        kw = sig[k].text
        if kw not in ITEM_KW:
            # not an item we understand (e.g. macro invocation); skip to next ';' or block end
            e = k
            while e < hi and not (sig[e].text == ';' and sig[e].depth == sig[j].depth):
                if sig[e].text == '{' and sig[e].depth == sig[j].depth:
                    e = sig[e].match
                    break
                e += 1
            i = e + 1
            continue
        item.kind = kw
        item.kw_index = k
        base_depth = sig[j].depth
        if kw == 'macro_rules':
            item.name = sig[k + 2].text
        elif kw == 'impl':
            # header up to '{'
            e = k
            while not (sig[e].text == '{' and sig[e].depth == base_depth):
                e += 1
            item.name = norm_ws(src.text[sig[k].start:sig[e].start])
        elif kw == 'use':
            item.name = ''
        else:
            item.name = sig[k + 1].text
        # find end
        e = k + 1
        while e < hi:
            t = sig[e]
            if t.depth == base_depth:
                if t.text == ';':
                    item.end = t.end
                    break
                if t.text == '{':
                    # `where` clauses never contain '{'; generics `<...>` neither
                    item.block_open = e
                    item.block_close = t.match
                    item.end = sig[t.match].end
                    if kw == 'macro_rules':
                        pass
                    break
                if t.text in ('(', '['):
                    e = t.match
            e += 1
        if item.end is None:
            break
        if kw == 'struct' and item.block_open is None:
            pass
        if kw == 'macro_rules' and item.block_open is None:
            pass
        out.append(item)
        i = (item.block_close + 1) if item.block_open is not None else e + 1
        # tuple struct `struct A(..);` ends with ';' handled above; `macro_rules! x {..}` no ';'
        if i < hi and kw in ('struct',) and item.block_open is not None and sig[i].text == ';':
            i += 1
    return out


def top_items(src):
    return items_in(src, 0, len(src.sig))


def block_items(src, item):
    return items_in(src, item.block_open + 1, item.block_close)
