"""Glue units: the code the REAL proc macros of the current tree emit for a zoo of schemas is obtained at run time
(`replay gen <schema>` calls asn1rs_model::proc_macro::asn_to_rust and the #[asn] attribute expansion), transformed by the
closed rule list below and verified by Verus against the trait contracts that unit `uper` ASSUMES of generated code.

Transform rules (mechanical, token level; every rule is a textual substitution on the macro output):
  G1  attributes dropped: #[derive(..)], #[doc(hidden)], #[inline], #[default]              (no semantic effect on the impls)
  G2  crate paths flattened to the single-file unit: `::asn1rs::descriptor::X` -> the module/type of unit uper,
      `::asn1rs::model::asn::Tag` -> `Tag`
  G3  = R13 of the extractor: the generic `R: Reader` / `W: Writer` parameter instantiated at UperReader<B> / UperWriter
  G4  spec twins: for `to_choice_index` / `from_choice_index` the same match expression is repeated as the spec functions
      e_index / e_from (ENUMERATED) resp. c_index (CHOICE) that the trait contracts of unit uper refer to; c_ok() is false
      (the alternative's encoding is not described compositionally here)
  G5  tuple-struct literal `Self { 0 : e , }` -> `Self(e)`
  G7  an associated const of an impl whose value is not a literal (`Some (0)`, `Tag::ContextSpecific (1)`) is hoisted into a free
      const and the associated const refers to it (Verus accepts only simple expressions as trait consts; same value)
  G8  an associated const the impl leaves to the trait's default is written out in the impl with the default value read from the
      trait declaration (src/descriptor/<mod>.rs of the current tree): Verus does not see a trait const's default outside the trait's module
  G4+ CHOICE: the arms of `write_content` repeated as c_enc / c_ok (`D::x_enc(*c)` / `D::x_ok(*c)`)
  G11 the forwarding impls `Readable::read` / `Writable::write` get the spec twins t_dec / tr_ok / t_enc / t_ok (= the descriptor's x_dec / x_enc);
      any other shape of these impls is a GlueError
Rules that ADD proof obligations (no exec text is changed; each is a `proof fn verif_g<k>_...` placed after the impl it talks about):
  G9  ENUMERATED: e_from(e_index(v)) == Some(v), index < VARIANT_COUNT, 1 <= STD_VARIANT_COUNT <= VARIANT_COUNT, spec-level round trip
  G10 bounded non-extensible INTEGER constraint: round trip on [MIN, MAX], the Rust type represents the range exactly, MIN_T/MAX_T == MIN/MAX
  G12 SET: components visited in non-descending order of their TAG constants, root before additions; FIELD_COUNT == components visited
  G13 the `-- @expect` lines of the zoo schema (constants X.680 / X.691 prescribe, derived by hand): `verif_g13_consts_<T>` (marker position,
      counts, which components own a presence bit) and `verif_g13_order_<T>` (visiting order / item numbering)
The transformed text is the macro output, not a model of it; the rules and how often each fired are listed in the evidence.
"""
import os
import re
import subprocess
import sys

VERIF = os.path.dirname(os.path.dirname(os.path.abspath(__file__)))

DESC = {
    'Sequence': 'sequence::Sequence', 'Set': 'set::Set', 'SetOf': 'setof::SetOf', 'Ia5String': 'ia5string::Ia5String',
    'NumericString': 'numericstring::NumericString', 'PrintableString': 'printablestring::PrintableString', 'VisibleString': 'visiblestring::VisibleString', 'Integer': 'numbers::Integer', 'Boolean': 'boolean::Boolean',
    'Enumerated': 'enumerated::Enumerated', 'Choice': 'choice::Choice', 'SequenceOf': 'sequenceof::SequenceOf',
    'Complex': 'complex::Complex', 'OctetString': 'octetstring::OctetString', 'Utf8String': 'utf8string::Utf8String',
    'NullT': 'null::NullT', 'Null': 'Null', 'DefaultValue': 'default::DefaultValue',
    'Readable': 'Readable', 'Writable': 'Writable', 'Reader': 'Reader', 'Writer': 'Writer',
}
MODS = ['common', 'sequence', 'set', 'numbers', 'boolean', 'enumerated', 'choice', 'sequenceof', 'setof', 'complex', 'octetstring', 'utf8string',
        'null', 'default', 'bitstring', 'ia5string', 'numericstring', 'printablestring', 'visiblestring']


class GlueError(Exception):
    pass


def macro_output(replay_bin, schema_path):
    p = subprocess.run([replay_bin, 'gen', schema_path], stdout=subprocess.PIPE, stderr=subprocess.PIPE, text=True, timeout=120,
                       env=dict(os.environ, VERIF_PANIC_MSG='1'))
    if p.returncode != 0 or not p.stdout.strip():
        raise GlueError('the macros of the current tree did not produce code for %s: %s' % (schema_path, p.stderr[-800:]))
    return p.stdout


def norm(ts):
    """token-stream text -> single spaces"""
    t = re.sub(r'# \[', '#[', ts)
    t = re.sub(r'\s+', ' ', t)
    return t


def balanced(t, i, open_c='{', close_c='}'):
    """index one past the block starting at t[i] == open_c"""
    d = 0
    k = i
    while k < len(t):
        if t[k] == open_c:
            d += 1
        elif t[k] == close_c:
            d -= 1
            if d == 0:
                return k + 1
        k += 1
    raise GlueError('unbalanced block')


def desc_fix(m, desc):
    class M:
        def __init__(s, a, b):
            s.a, s.b = a, b
        def group(s, i):
            return s.a if i == 1 else (s.b or '')
    return desc(M(m.group(1), m.group(2)))


ALIAS = {'set': 'sequence', 'setof': 'sequenceof'}


def trait_defaults(repo, mod):
    """(generic parameter names, [(const name, type, default value)]) of `pub trait Constraint` in src/descriptor/<mod>.rs of the current tree"""
    path = os.path.join(repo, 'src', 'descriptor', ALIAS.get(mod, mod) + '.rs')
    try:
        src = open(path).read()
    except OSError:
        raise GlueError('rule G8: %s not found' % path)
    m = re.search(r'pub trait Constraint(?:<([^>{]*)>)?[^{]*\{', src)
    if not m:
        raise GlueError('rule G8: `pub trait Constraint` not found in %s' % path)
    end = balanced(src, m.end() - 1)
    body = src[m.end():end - 1]
    params = [x.split(':')[0].strip() for x in (m.group(1) or '').split(',') if x.strip()]
    # only the associated consts directly in the trait (depth 0)
    flat = []
    d = 0
    for ch in body:
        if ch == '{':
            d += 1
        elif ch == '}':
            d -= 1
        flat.append(ch if d == 0 or (d == 1 and ch == '{') else ' ')
    flat = ''.join(flat)
    return params, [(a, b.strip(), c.strip()) for a, b, c in re.findall(r'\bconst (\w+)\s*:\s*([^=;]+?)\s*=\s*([^;]+?)\s*;', flat)]


def parse_facts(schema_text):
    """`-- @expect <Type>: <kind> k=v ...` lines of a zoo schema: the constants X.680 / X.691 prescribe, derived by hand from the schema"""
    facts = {}
    for m in re.finditer(r'--\s*@expect\s+(\w+)\s*:\s*(seq|set|enum|choice)\s+(.*)', schema_text):
        kv = dict(x.split('=', 1) for x in m.group(3).split())
        facts[m.group(1)] = (m.group(2), kv)
    return facts


def parse_cfacts(schema_text):
    """`-- @expect-c <Stem>: int <lo>..<hi> [ext] | int - | size <lo>..<hi> [ext] | size -` : the INTEGER range / SIZE constraint of one
    component (Stem = the generator's name of its constraint type, ___asn1rs_<Stem>Constraint), derived by hand from the schema"""
    out = {}
    for m in re.finditer(r'--\s*@expect-c\s+(\w+)\s*:\s*(int|size)\s+(-|(-?\d+)\.\.(-?\d+))(\s+ext)?\s*$', schema_text, re.M):
        out[m.group(1)] = (m.group(2), None if m.group(3) == '-' else (int(m.group(4)), int(m.group(5))), bool(m.group(6)))
    return out


def transform(text, repo='/repo', facts=None, cfacts=None):
    rules = {}
    facts = facts or {}
    cfacts = cfacts or {}

    def fire(rule, n=1):
        rules[rule] = rules.get(rule, 0) + n

    t = norm(text)
    # G1
    for rx in (r'#\[derive \([^\]]*\)\] ?', r'#\[doc \(hidden\)\] ?', r'#\[inline\] ?', r'#\[default\] ?', r'#\[derive\([^\]]*\)\] ?'):
        t, n = re.subn(rx, '', t)
        if n:
            fire('G1', n)
    # G2 (on the spaced token text, so that a leading `::` keeps its separating space)
    def desc(m):
        name = m.group(1)
        fire('G2')
        if name in MODS:
            return name + '::' + m.group(2)
        if m.group(2):
            raise GlueError('unexpected path ::asn1rs::descriptor::%s::%s' % (name, m.group(2)))
        if name in DESC:
            return DESC[name]
        raise GlueError('descriptor path ::asn1rs::descriptor::%s is not known to the glue rules' % name)
    t = re.sub(r':: asn1rs :: descriptor :: ([A-Za-z0-9_]+)(?: :: ([A-Za-z0-9_]+))?', lambda m: desc_fix(m, desc), t)
    t, n = re.subn(r':: asn1rs :: model :: asn :: Tag', 'Tag', t)
    if n:
        fire('G2', n)
    if 'asn1rs' in t.replace('___asn1rs_', ''):
        k = t.replace('___asn1rs_', '__________').index('asn1rs')
        raise GlueError('unhandled crate path in macro output: %s' % t[max(0, k - 20):k + 60])
    t = re.sub(r' :: ', '::', t)
    # G3
    for a, b in ((r'< R : Reader > \(reader : & mut R\)', '<B: ScopedBitRead>(reader: &mut UperReader<B>)'),
                 (r'< R : Reader > \(index : u64 , reader : & mut R\)', '<B: ScopedBitRead>(index: u64, reader: &mut UperReader<B>)'),
                 (r'< W : Writer > \(& self , writer : & mut W\)', '(&self, writer: &mut UperWriter)'),
                 (r'R::Error', 'Error'), (r'W::Error', 'Error')):
        t, n = re.subn(a, b, t)
        if n:
            fire('G3', n)
    if re.search(r'\b[RW] : (Reader|Writer)\b', t):
        raise GlueError('a generic Reader/Writer parameter survived rule G3')
    # G5
    t, n = re.subn(r'Self \{ 0 : ([^{}]*?) ?, \}', r'Self(\1)', t)
    if n:
        fire('G5', n)
    # G4: spec twins
    out = []
    pos = 0
    for m in re.finditer(r'impl (enumerated|choice)::Constraint for (\w+) \{', t):
        kind, ty = m.group(1), m.group(2)
        end = balanced(t, m.end() - 1)
        body = t[m.end():end - 1]
        mi = re.search(r'fn to_choice_index \(& self\) -> u64 \{', body)
        if not mi:
            raise GlueError('to_choice_index not found in impl %s::Constraint for %s' % (kind, ty))
        e1 = balanced(body, mi.end() - 1)
        idx_expr = body[mi.end():e1 - 1].strip()
        extra = ''
        if kind == 'enumerated':
            mf = re.search(r'fn from_choice_index \(index : u64\) -> Option < Self > \{', body)
            if not mf:
                raise GlueError('from_choice_index not found in impl enumerated::Constraint for %s' % ty)
            e2 = balanced(body, mf.end() - 1)
            from_expr = body[mf.end():e2 - 1].strip()
            extra = (' open spec fn e_index(&self) -> u64 { %s } open spec fn e_from(index: u64) -> Option<Self> { %s } ' % (idx_expr, from_expr))
        else:
            # c_enc / c_ok: the spec twin of write_content -- every arm `Self::V (c) => D::write_value (writer , c)` becomes `D::x_enc(*c)` / `D::x_ok(*c)`
            enc_expr, ok_expr = 'Seq::<bool>::empty()', 'false'
            mw = re.search(r'fn write_content \(& ?self ?, writer ?: ?& ?mut UperWriter\) -> Result < \(\) , Error > \{', body)
            if mw:
                e3 = balanced(body, mw.end() - 1)
                wbody = body[mw.end():e3 - 1].strip()
                mm = re.fullmatch(r'match self \{ (.*) \}', wbody)
                if mm:
                    arms = re.findall(r'Self::(\w+) \(c\) => (\w+)::write_value \(writer , c\) ,', mm.group(1))
                    rest = re.sub(r'Self::(\w+) \(c\) => (\w+)::write_value \(writer , c\) ,', '', mm.group(1)).strip()
                    if arms and not rest:
                        enc_expr = 'match self { %s }' % ' '.join('Self::%s (c) => <%s as WritableType>::x_enc(*c) ,' % (v_, d_) for v_, d_ in arms)
                        ok_expr = 'match self { %s }' % ' '.join('Self::%s (c) => <%s as WritableType>::x_ok(*c) ,' % (v_, d_) for v_, d_ in arms)
            extra = (' open spec fn c_index(&self) -> u64 { %s } open spec fn c_enc(&self) -> Seq<bool> { %s } open spec fn c_ok(&self) -> bool { %s } ' % (idx_expr, enc_expr, ok_expr))
        fire('G4')
        out.append(t[pos:m.end()] + extra)
        pos = m.end()
    out.append(t[pos:])
    t = ''.join(out)
    # G12: per generated SET a proof obligation (no exec code): the components are visited (write_seq, and read_seq where it has the
    # struct-literal form) in strictly ascending order of their generated TAG constants, root components before extension additions (C16)
    out = []
    pos = 0
    for m in re.finditer(r'impl set::Constraint for (\w+) \{', t):
        ty = m.group(1)
        end = balanced(t, m.end() - 1)
        body = t[m.end():end - 1]
        mw = re.search(r'fn write_seq \(&self, writer: &mut UperWriter\) -> Result < \(\) , Error > \{', body)
        if not mw:
            raise GlueError('rule G12: write_seq of SET %s not found' % ty)
        wb = body[mw.end():balanced(body, mw.end() - 1) - 1]
        worder = re.findall(r'AsnDef(\w+)::write_value \(writer , & self \. \w+\) \?;', wb)
        if not worder or re.sub(r'AsnDef(\w+)::write_value \(writer , & self \. \w+\) \?;', '', wb).strip() not in ('Ok (())', 'Result::Ok (())'):
            raise GlueError('rule G12: write_seq of SET %s is not a plain list of write_value calls' % ty)
        orders = [('w', worder)]
        mr = re.search(r'\{ Ok \(Self \{ ((?:\w+ : AsnDef\w+::read_value \(reader\) \?, )+)\}\) \}', body)
        if mr:
            orders.append(('r', re.findall(r'\w+ : AsnDef(\w+)::read_value \(reader\) \?,', mr.group(1))))
        law = ''
        for tag_, order in orders:
            for a_ in order:
                if ('struct ___asn1rs_%sConstraint' % a_) not in t:
                    raise GlueError('rule G12: constraint type of component %s of SET %s not found' % (a_, ty))
            clauses = ['set_pair_ok(<%s as set::Constraint>::EXTENDED_AFTER_FIELD, %d, <___asn1rs_%sConstraint as common::Constraint>::TAG, <___asn1rs_%sConstraint as common::Constraint>::TAG)'
                       % (ty, i, order[i], order[i + 1]) for i in range(len(order) - 1)]
            clauses.append('<%s as set::Constraint>::FIELD_COUNT == %d' % (ty, len(order)))
            law += ' proof fn verif_g12_order_%s_%s() ensures %s, /*B*/{ }' % (tag_, ty, ', '.join(clauses))
        out.append(t[pos:end] + law)
        pos = end
        fire('G12')
    out.append(t[pos:])
    t = ''.join(out)
    # G13 (components): INTEGER range / SIZE constraint constants against the `-- @expect-c` lines
    out = []
    pos = 0
    seen_c = set()
    for m in re.finditer(r'impl (numbers|octetstring|bitstring|sequenceof|setof|utf8string|ia5string|numericstring|printablestring|visiblestring)::Constraint(?: < (\w+) >)? for ___asn1rs_(\w+)Constraint \{', t):
        mod, nty, stem = m.group(1), m.group(2), m.group(3)
        if stem not in cfacts:
            continue
        kind, rng, ext = cfacts[stem]
        if (kind == 'int') != (mod == 'numbers'):
            raise GlueError('@expect-c %s: declared %s but the macro emits %s::Constraint' % (stem, kind, mod))
        seen_c.add(stem)
        end = balanced(t, m.end() - 1)
        c = '<___asn1rs_%sConstraint as %s::Constraint%s>' % (stem, mod, ('<%s>' % nty) if nty else '')
        ity = 'i64' if kind == 'int' else 'u64'
        cl = ['%s::MIN == %s' % (c, 'None::<%s>' % ity if rng is None else 'Some((%d) as %s)' % (rng[0], ity)),
              '%s::MAX == %s' % (c, 'None::<%s>' % ity if rng is None else 'Some((%d) as %s)' % (rng[1], ity)),
              '%s::EXTENSIBLE == %s' % (c, 'true' if ext else 'false')]
        out.append(t[pos:end] + ' proof fn verif_g13_consts_c_%s() ensures %s, /*B*/{ }' % (stem, ', '.join(cl)))
        pos = end
        fire('G13')
    out.append(t[pos:])
    t = ''.join(out)
    if set(cfacts) - seen_c:
        raise GlueError('@expect-c names constraint types the macro output does not define: %s' % ', '.join(sorted(set(cfacts) - seen_c)))
    # G13: the hand-derived facts of the zoo schema (`-- @expect` lines) as proof obligations on the generated constants, on the kind of
    # descriptor chosen per component (owns a presence bit or not) and on the order in which the generated code visits components / numbers items
    out = []
    pos = 0
    seen = set()
    for m in re.finditer(r'impl (sequence|set|enumerated|choice)::Constraint for (\w+) \{', t):
        kind, ty = m.group(1), m.group(2)
        if ty not in facts:
            continue
        fkind, kv = facts[ty]
        seen.add(ty)
        if {'seq': 'sequence', 'set': 'set', 'enum': 'enumerated', 'choice': 'choice'}[fkind] != kind:
            raise GlueError('@expect %s: declared %s but the macro emits %s::Constraint' % (ty, fkind, kind))
        end = balanced(t, m.end() - 1)
        body = t[m.end():end - 1]
        c = '<%s as %s::Constraint>' % (ty, kind)
        cl = []
        ol = []         # order clauses (C16 / component order), reported as a separate obligation
        if kind in ('sequence', 'set'):
            cl.append('%s::EXTENDED_AFTER_FIELD == %s' % (c, 'None::<u64>' if kv['ext'] == '-' else 'Some(%du64)' % int(kv['ext'])))
            cl.append('%s::STD_OPTIONAL_FIELDS == %d' % (c, int(kv['opt'])))
            exp = [x.split(':') for x in kv['fields'].split(',')]
            cl.append('%s::FIELD_COUNT == %d' % (c, len(exp)))
            mw = re.search(r'fn write_seq \(&self, writer: &mut UperWriter\) -> Result < \(\) , Error > \{', body)
            wb = body[mw.end():balanced(body, mw.end() - 1) - 1] if mw else ''
            worder = re.findall(r'(AsnDef\w+)::write_value \(writer , & self \. (\w+)\) \?;', wb)
            ol.append('verif_expected("write_seq of %s visits %s", %s)' % (ty, ','.join(n for n, _ in exp), 'true' if [n for _, n in worder] == [n for n, _ in exp] else 'false'))
            mr = re.search(r'fn read_seq <B: ScopedBitRead>\(reader: &mut UperReader<B>\) -> Result < Self , Error > where Self : Sized , \{', body)
            rb = body[mr.end():balanced(body, mr.end() - 1) - 1] if mr else ''
            rorder = re.findall(r'(AsnDef\w+)::read_value \(reader\)', rb)
            # order (C16): what read_seq reads is a subsequence of what write_seq writes, i.e. the relative order agrees;
            # completeness (C01 / C03): it reads every component -- a separate clause of the consts obligation
            wl = [a for a, _ in worder]
            it = iter(wl)
            ol.append('verif_expected("read_seq of %s reads components in the relative order write_seq writes them", %s)' % (ty, 'true' if all(a in it for a in rorder) else 'false'))
            cl.append('verif_expected("read_seq of %s reads every component write_seq writes, once", %s)' % (ty, 'true' if sorted(rorder) == sorted(wl) else 'false'))
            for (alias, name) in worder:
                k = dict((n, k_) for n, k_ in exp).get(name)
                if k is not None:
                    cl.append('<%s as WritableType>::w_is_opt() == %s && <%s as ReadableType>::r_is_opt() == %s' % (alias, 'true' if k == 'o' else 'false', alias, 'true' if k == 'o' else 'false'))
        else:
            cl.append('%s::STD_VARIANT_COUNT == %d' % (c, int(kv['std'])))
            cl.append('%s::EXTENSIBLE == %s' % (c, kv['ext']))
            if 'alts' in kv:
                alts = kv['alts'].split(',')
                cl.append('%s::VARIANT_COUNT == %d' % (c, len(alts)))
                for i, a in enumerate(alts):
                    if kind == 'enumerated':
                        ol.append('%s::e_index(&%s::%s) == %d' % (c, ty, a, i))
                    else:
                        ol.append('forall|v: %s| (v is %s) ==> #[trigger] %s::c_index(&v) == %d' % (ty, a, c, i))
        out.append(t[pos:end] + ' proof fn verif_g13_consts_%s() ensures %s, /*B*/{ }' % (ty, ', '.join(cl))
                   + (' proof fn verif_g13_order_%s() ensures %s, /*B*/{ }' % (ty, ', '.join(ol)) if ol else ''))
        pos = end
        fire('G13')
    out.append(t[pos:])
    t = ''.join(out)
    missing = sorted(set(facts) - seen)
    if missing:
        raise GlueError('@expect names types the macro output does not define: %s' % ', '.join(missing))
    # G11: spec twins of the forwarding impls `Readable::read` / `Writable::write` (t_dec / t_enc are the descriptor's x_dec / x_enc)
    def g11_r(m):
        fire('G11')
        return ('impl Readable for %s { open spec fn t_dec(bytes: Seq<u8>, pos: int, limit: int) -> Option<(Self, int)> { <%s as ReadableType>::x_dec(bytes, pos, limit) } '
                'open spec fn tr_ok() -> bool { <%s as ReadableType>::xr_ok() } %s' % (m.group(1), m.group(3), m.group(3), m.group(2)))
    t, n = re.subn(r'impl Readable for (\w+) \{ (fn read <B: ScopedBitRead>\(reader: &mut UperReader<B>\) -> Result < Self , Error > \{ (\w+)::read_value \(reader\) \} \})', g11_r, t)
    def g11_w(m):
        fire('G11')
        return ('impl Writable for %s { open spec fn t_enc(&self) -> Seq<bool> { <%s as WritableType>::x_enc(*self) } '
                'open spec fn t_ok(&self) -> bool { <%s as WritableType>::x_ok(*self) } %s' % (m.group(1), m.group(3), m.group(3), m.group(2)))
    t, n = re.subn(r'impl Writable for (\w+) \{ (fn write \(&self, writer: &mut UperWriter\) -> Result < \(\) , Error > \{ (\w+)::write_value \(writer , self\) \} \})', g11_w, t)
    if re.search(r'impl (Readable|Writable) for \w+ \{ fn ', t):
        raise GlueError('an impl of Readable / Writable is not of the forwarding form rule G11 knows')
    # G10: per bounded, non-extensible INTEGER constraint a proof obligation (no exec code): the constants describe a range the chosen
    # Rust type represents exactly (C15 on the zoo) and the descriptor codec round trips on it at the specification level (C01)
    out = []
    pos = 0
    for m in re.finditer(r'impl numbers::Constraint < (\w+) > for (\w+) \{', t):
        nty, ty = m.group(1), m.group(2)
        end = balanced(t, m.end() - 1)
        body = t[m.end():end - 1]
        lo = re.search(r'const MIN : Option < i64 > = Some \((- ?\d+|\d+)\) ;', body)
        hi = re.search(r'const MAX : Option < i64 > = Some \((- ?\d+|\d+)\) ;', body)
        ext = re.search(r'const EXTENSIBLE : bool = (true|false) ;', body)
        if not (lo and hi) or (ext and ext.group(1) == 'true'):
            continue
        lo_v, hi_v = int(lo.group(1).replace(' ', '')), int(hi.group(1).replace(' ', ''))
        if not lo_v < hi_v:
            continue        # a single-value range occupies no bits: Integer::xr_ok() is false, nothing to state
        d = 'numbers::Integer::<%s, %s>' % (nty, ty)
        c = '<%s as numbers::Constraint<%s>>' % (ty, nty)
        law = (' proof fn verif_g10_rt_{ty}(v: {nty}) requires ({lo}i64) <= numbers::Number::n_i64(v) <= ({hi}i64){u64} '
               'ensures rt_at(|x: {nty}| {d}::x_enc(x), |b: Seq<u8>, p: int, l: int| {d}::x_dec(b, p, l), v), '
               'forall|n: i64| ({lo}i64) <= n <= ({hi}i64) ==> numbers::Number::n_i64(#[trigger] <{nty} as numbers::Number>::n_from(n)) == n, '
               '({c}::MIN_T matches Some(m_) ==> numbers::Number::n_i64(m_) == ({lo}i64)) && ({c}::MAX_T matches Some(m_) ==> numbers::Number::n_i64(m_) == ({hi}i64)), '
               '/*B*/{{ lemma_number_law_{nty}(v); lemma_rt_integer_descriptor::<{nty}, {ty}>(v); }}'
               ).format(ty=ty, nty=nty, lo=lo_v, hi=hi_v, d=d, c=c, u64=(', v <= 0x7fff_ffff_ffff_ffffu64' if nty == 'u64' else ''))
        out.append(t[pos:end] + law)
        pos = end
        fire('G10')
    out.append(t[pos:])
    t = ''.join(out)
    # G8: defaults of associated consts made explicit (Verus does not see the default value of a trait const outside the trait's module)
    out = []
    pos = 0
    for m in re.finditer(r'impl (\w+)::Constraint(?: < ([^>]*) >)? for (\w+) \{', t):
        mod = m.group(1)
        if mod == 'common':
            continue
        params, defaults = trait_defaults(repo, mod)
        args = [x.strip() for x in (m.group(2) or '').split(',') if x.strip()]
        if len(args) != len(params):
            raise GlueError('rule G8: impl %s::Constraint<%s> does not match the trait parameters %s' % (mod, m.group(2), params))
        end = balanced(t, m.end() - 1)
        body = t[m.end():end - 1]
        head_end = body.find(' fn ')
        head = body if head_end < 0 else body[:head_end]
        add = ''
        for (name, ty, val) in defaults:
            if re.search(r'\bconst %s :' % name, body):
                continue
            for pn, an in zip(params, args):
                ty = re.sub(r'\b%s\b' % pn, an, ty)
            add += ' const %s : %s = %s ;' % (name, ty, val)
            fire('G8')
        out.append(t[pos:m.end()] + add)
        pos = m.end()
    out.append(t[pos:])
    t = ''.join(out)
    # G7: hoist non-literal associated consts
    out = []
    pos = 0
    counter = [0]
    for m in re.finditer(r'impl ([A-Za-z0-9_:]+(?: < [^>]* >)?) for (\w+) \{', t):
        end = balanced(t, m.end() - 1)
        body = t[m.end():end - 1]
        hoisted = []
        def hoist(cm):
            name, ty, expr = cm.group(1), cm.group(2).strip(), cm.group(3).strip()
            if re.fullmatch(r'[A-Za-z0-9_"\' .+-]+', expr) and '(' not in expr and '::' not in expr and expr != 'None':
                return cm.group(0)
            def assoc(am):
                tm = re.search(r'type %s = ([^;]+?) ;' % am.group(1), body)
                if not tm:
                    raise GlueError('associated type Self::%s of a hoisted const not found' % am.group(1))
                return tm.group(1)
            ty = re.sub(r'Self::(\w+)', assoc, ty)
            counter[0] += 1
            g = 'VERIF_G7_%d_%s' % (counter[0], name)
            hoisted.append('pub const %s : %s = %s ;' % (g, ty, expr))
            fire('G7')
            return 'const %s : %s = %s ;' % (name, cm.group(2).strip(), g)
        # only consts directly inside the impl block (depth 0 of body): consts precede the fns in the macro output
        head_end = body.find(' fn ')
        head = body if head_end < 0 else body[:head_end]
        new_head = re.sub(r'const (\w+) : ([^=;]+?) = ([^;]+?) ;', hoist, head)
        out.append(t[pos:m.start()] + ' '.join(hoisted) + (' ' if hoisted else '') + t[m.start():m.end()] + new_head + (body[head_end:] if head_end >= 0 else '') + '}')
        pos = end
    out.append(t[pos:])
    t = ''.join(out)
    # G9: per generated ENUMERATED a proof obligation (no exec code): the law of the generated value type and the spec-level round trip
    out = []
    pos = 0
    for m in re.finditer(r'impl enumerated::Constraint for (\w+) \{', t):
        ty = m.group(1)
        end = balanced(t, m.end() - 1)
        c = '<%s as enumerated::Constraint>' % ty
        d = 'enumerated::Enumerated::<%s>' % ty
        law = (' proof fn verif_g9_rt_{ty}(v: {ty}) ensures {c}::e_from({c}::e_index(&v)) == Some(v), {c}::e_index(&v) < {c}::VARIANT_COUNT, {c}::STD_VARIANT_COUNT >= 1, '
               '{c}::STD_VARIANT_COUNT <= {c}::VARIANT_COUNT, {c}::EXTENSIBLE || {c}::e_index(&v) < {c}::STD_VARIANT_COUNT, '
               'rt_at(|x: {ty}| {d}::x_enc(x), |b: Seq<u8>, p: int, l: int| {d}::x_dec(b, p, l), v), '
               '<{ty} as Readable>::tr_ok() && <{ty} as Writable>::t_ok(&v) && rt_at(|x: {ty}| <{ty} as Writable>::t_enc(&x), |b: Seq<u8>, p: int, l: int| <{ty} as Readable>::t_dec(b, p, l), v), '
               '/*B*/{{ assert forall|bytes: Seq<u8>, pos: int, limit: int| 0 <= pos && starts_with(bytes, pos, {d}::x_enc(v)) && pos + {d}::x_enc(v).len() <= limit '
               'implies #[trigger] {d}::x_dec(bytes, pos, limit) == Some((v, pos + {d}::x_enc(v).len())) by '
               '{{ lemma_rt_index(bytes, pos, limit, {c}::STD_VARIANT_COUNT, {c}::EXTENSIBLE, {c}::e_index(&v)); }} }}').format(ty=ty, c=c, d=d)
        out.append(t[pos:end] + law)
        pos = end
        fire('G9')
    out.append(t[pos:])
    t = ''.join(out)
    # one item per line for readable diagnostics
    t = re.sub(r' (impl |pub struct |pub enum |struct |type )', r'\n\1', t)
    t = re.sub(r' (proof fn |(?<!proof )fn |const |open spec fn )', r'\n    \1', t)
    return t, rules


def insert_canaries(g):
    """vacuity guard: `assert(false);` as first statement of every generated exec function (each must be refuted)"""
    out = []
    pos = 0
    n = 0
    for m in re.finditer(r'(?<!spec )\bfn \w+', g):
        i = m.end()
        if g[max(0, m.start() - 6):m.start()] == 'proof ':
            # proof obligations added by rules G9-G13: their ensures clauses contain comparison operators, the body is marked
            i = g.find('/*B*/{', m.end())
            if i < 0:
                raise GlueError('proof fn without body marker')
            i += 5
            out.append(g[pos:i + 1] + ' assert(false); ')
            pos = i + 1
            n += 1
            continue
        depth = 0
        while i < len(g):
            c = g[i]
            if c in '(<[':
                depth += 1
            elif c in ')>]':
                if not (c == '>' and g[i - 1] == '-'):
                    depth -= 1
            elif c == '{' and depth == 0:
                break
            elif c == ';' and depth == 0:
                i = -1
                break
            i += 1
        if i < 0 or i >= len(g):
            continue
        out.append(g[pos:i + 1] + ' assert(false); ')
        pos = i + 1
        n += 1
    out.append(g[pos:])
    return ''.join(out), n


if __name__ == '__main__':
    replay = os.path.join(VERIF, 'replay', 'target', 'release', 'replay')
    txt = macro_output(replay, sys.argv[1])
    g, rules = transform(txt)
    print(g)
    print('// rules fired:', rules, file=sys.stderr)
