"""Glue units: the code the REAL proc macros of the current tree emit for a zoo of schemas is obtained at run time
(`replay gen <schema>` calls asn1rs_model::proc_macro::asn_to_rust and the #[asn] attribute expansion), transformed by the
closed rule list below and verified by Verus against the trait contracts that unit `uper` ASSUMES of generated code.

Transform rules (mechanical, token level; every rule is a textual substitution on the macro output):
  G1  attributes dropped: #[derive(..)], #[doc(hidden)], #[inline], #[default]              (no semantic effect on the impls)
  G2  crate paths flattened to the single-file unit: `::asn1rs::descriptor::X` -> the module/type of unit uper,
      `::asn1rs::model::asn::Tag` -> `Tag`
  G3  = R13 of the extractor: the generic `R: Reader` / `W: Writer` parameter instantiated at UperReader<B> / UperWriter
  G4  spec twins: for `to_choice_index` / `from_choice_index` the same match expression is repeated as the spec functions
      e_index / e_from (ENUMERATED) resp. c_index (CHOICE) that the trait contracts of unit uper refer to; c_ok() is false
      (the alternative's encoding is not described compositionally here)
  G5  tuple-struct literal `Self { 0 : e , }` -> `Self(e)`
  G7  an associated const of an impl whose value is not a literal (`Some (0)`, `Tag::ContextSpecific (1)`) is hoisted into a free
      const and the associated const refers to it (Verus accepts only simple expressions as trait consts; same value)
  G8  an associated const the impl leaves to the trait's default is written out in the impl with the default value read from the
      trait declaration (src/descriptor/<mod>.rs of the current tree): Verus does not see a trait const's default outside the trait's module
  G6  the contract-less impls `Readable` / `Writable` get no text change (their contract comes from the trait)
The transformed text is the macro output, not a model of it; the rules are listed in the evidence.
"""
import os
import re
import subprocess
import sys

VERIF = os.path.dirname(os.path.dirname(os.path.abspath(__file__)))

DESC = {
    'Sequence': 'sequence::Sequence', 'Set': 'set::Set', 'SetOf': 'setof::SetOf', 'Ia5String': 'ia5string::Ia5String',
    'NumericString': 'numericstring::NumericString', 'PrintableString': 'printablestring::PrintableString', 'VisibleString': 'visiblestring::VisibleString', 'Integer': 'numbers::Integer', 'Boolean': 'boolean::Boolean',
    'Enumerated': 'enumerated::Enumerated', 'Choice': 'choice::Choice', 'SequenceOf': 'sequenceof::SequenceOf',
    'Complex': 'complex::Complex', 'OctetString': 'octetstring::OctetString', 'Utf8String': 'utf8string::Utf8String',
    'NullT': 'null::NullT', 'Null': 'Null', 'DefaultValue': 'default::DefaultValue',
    'Readable': 'Readable', 'Writable': 'Writable', 'Reader': 'Reader', 'Writer': 'Writer',
}
MODS = ['common', 'sequence', 'set', 'numbers', 'boolean', 'enumerated', 'choice', 'sequenceof', 'setof', 'complex', 'octetstring', 'utf8string',
        'null', 'default', 'bitstring', 'ia5string', 'numericstring', 'printablestring', 'visiblestring']


class GlueError(Exception):
    pass


def macro_output(replay_bin, schema_path):
    p = subprocess.run([replay_bin, 'gen', schema_path], stdout=subprocess.PIPE, stderr=subprocess.PIPE, text=True, timeout=120,
                       env=dict(os.environ, VERIF_PANIC_MSG='1'))
    if p.returncode != 0 or not p.stdout.strip():
        raise GlueError('the macros of the current tree did not produce code for %s: %s' % (schema_path, p.stderr[-800:]))
    return p.stdout


def norm(ts):
    """token-stream text -> single spaces"""
    t = re.sub(r'# \[', '#[', ts)
    t = re.sub(r'\s+', ' ', t)
    return t


def balanced(t, i, open_c='{', close_c='}'):
    """index one past the block starting at t[i] == open_c"""
    d = 0
    k = i
    while k < len(t):
        if t[k] == open_c:
            d += 1
        elif t[k] == close_c:
            d -= 1
            if d == 0:
                return k + 1
        k += 1
    raise GlueError('unbalanced block')


def desc_fix(m, desc):
    class M:
        def __init__(s, a, b):
            s.a, s.b = a, b
        def group(s, i):
            return s.a if i == 1 else (s.b or '')
    return desc(M(m.group(1), m.group(2)))


ALIAS = {'set': 'sequence', 'setof': 'sequenceof'}


def trait_defaults(repo, mod):
    """(generic parameter names, [(const name, type, default value)]) of `pub trait Constraint` in src/descriptor/<mod>.rs of the current tree"""
    path = os.path.join(repo, 'src', 'descriptor', ALIAS.get(mod, mod) + '.rs')
    try:
        src = open(path).read()
    except OSError:
        raise GlueError('rule G8: %s not found' % path)
    m = re.search(r'pub trait Constraint(?:<([^>{]*)>)?[^{]*\{', src)
    if not m:
        raise GlueError('rule G8: `pub trait Constraint` not found in %s' % path)
    end = balanced(src, m.end() - 1)
    body = src[m.end():end - 1]
    params = [x.split(':')[0].strip() for x in (m.group(1) or '').split(',') if x.strip()]
    # only the associated consts directly in the trait (depth 0)
    flat = []
    d = 0
    for ch in body:
        if ch == '{':
            d += 1
        elif ch == '}':
            d -= 1
        flat.append(ch if d == 0 or (d == 1 and ch == '{') else ' ')
    flat = ''.join(flat)
    return params, [(a, b.strip(), c.strip()) for a, b, c in re.findall(r'\bconst (\w+)\s*:\s*([^=;]+?)\s*=\s*([^;]+?)\s*;', flat)]


def transform(text, repo='/repo'):
    rules = {}

    def fire(rule, n=1):
        rules[rule] = rules.get(rule, 0) + n

    t = norm(text)
    # G1
    for rx in (r'#\[derive \([^\]]*\)\] ?', r'#\[doc \(hidden\)\] ?', r'#\[inline\] ?', r'#\[default\] ?', r'#\[derive\([^\]]*\)\] ?'):
        t, n = re.subn(rx, '', t)
        if n:
            fire('G1', n)
    # G2 (on the spaced token text, so that a leading `::` keeps its separating space)
    def desc(m):
        name = m.group(1)
        fire('G2')
        if name in MODS:
            return name + '::' + m.group(2)
        if m.group(2):
            raise GlueError('unexpected path ::asn1rs::descriptor::%s::%s' % (name, m.group(2)))
        if name in DESC:
            return DESC[name]
        raise GlueError('descriptor path ::asn1rs::descriptor::%s is not known to the glue rules' % name)
    t = re.sub(r':: asn1rs :: descriptor :: ([A-Za-z0-9_]+)(?: :: ([A-Za-z0-9_]+))?', lambda m: desc_fix(m, desc), t)
    t, n = re.subn(r':: asn1rs :: model :: asn :: Tag', 'Tag', t)
    if n:
        fire('G2', n)
    if 'asn1rs' in t.replace('___asn1rs_', ''):
        k = t.replace('___asn1rs_', '__________').index('asn1rs')
        raise GlueError('unhandled crate path in macro output: %s' % t[max(0, k - 20):k + 60])
    t = re.sub(r' :: ', '::', t)
    # G3
    for a, b in ((r'< R : Reader > \(reader : & mut R\)', '<B: ScopedBitRead>(reader: &mut UperReader<B>)'),
                 (r'< R : Reader > \(index : u64 , reader : & mut R\)', '<B: ScopedBitRead>(index: u64, reader: &mut UperReader<B>)'),
                 (r'< W : Writer > \(& self , writer : & mut W\)', '(&self, writer: &mut UperWriter)'),
                 (r'R::Error', 'Error'), (r'W::Error', 'Error')):
        t, n = re.subn(a, b, t)
        if n:
            fire('G3', n)
    if re.search(r'\b[RW] : (Reader|Writer)\b', t):
        raise GlueError('a generic Reader/Writer parameter survived rule G3')
    # G5
    t, n = re.subn(r'Self \{ 0 : ([^{}]*?) ?, \}', r'Self(\1)', t)
    if n:
        fire('G5', n)
    # G4: spec twins
    out = []
    pos = 0
    for m in re.finditer(r'impl (enumerated|choice)::Constraint for (\w+) \{', t):
        kind, ty = m.group(1), m.group(2)
        end = balanced(t, m.end() - 1)
        body = t[m.end():end - 1]
        mi = re.search(r'fn to_choice_index \(& self\) -> u64 \{', body)
        if not mi:
            raise GlueError('to_choice_index not found in impl %s::Constraint for %s' % (kind, ty))
        e1 = balanced(body, mi.end() - 1)
        idx_expr = body[mi.end():e1 - 1].strip()
        extra = ''
        if kind == 'enumerated':
            mf = re.search(r'fn from_choice_index \(index : u64\) -> Option < Self > \{', body)
            if not mf:
                raise GlueError('from_choice_index not found in impl enumerated::Constraint for %s' % ty)
            e2 = balanced(body, mf.end() - 1)
            from_expr = body[mf.end():e2 - 1].strip()
            extra = (' open spec fn e_index(&self) -> u64 { %s } open spec fn e_from(index: u64) -> Option<Self> { %s } ' % (idx_expr, from_expr))
        else:
            extra = (' open spec fn c_index(&self) -> u64 { %s } open spec fn c_enc(&self) -> Seq<bool> { Seq::<bool>::empty() } open spec fn c_ok(&self) -> bool { false } ' % idx_expr)
        fire('G4')
        out.append(t[pos:m.end()] + extra)
        pos = m.end()
    out.append(t[pos:])
    t = ''.join(out)
    # G8: defaults of associated consts made explicit (Verus does not see the default value of a trait const outside the trait's module)
    out = []
    pos = 0
    for m in re.finditer(r'impl (\w+)::Constraint(?: < ([^>]*) >)? for (\w+) \{', t):
        mod = m.group(1)
        if mod == 'common':
            continue
        params, defaults = trait_defaults(repo, mod)
        args = [x.strip() for x in (m.group(2) or '').split(',') if x.strip()]
        if len(args) != len(params):
            raise GlueError('rule G8: impl %s::Constraint<%s> does not match the trait parameters %s' % (mod, m.group(2), params))
        end = balanced(t, m.end() - 1)
        body = t[m.end():end - 1]
        head_end = body.find(' fn ')
        head = body if head_end < 0 else body[:head_end]
        add = ''
        for (name, ty, val) in defaults:
            if re.search(r'\bconst %s :' % name, body):
                continue
            for pn, an in zip(params, args):
                ty = re.sub(r'\b%s\b' % pn, an, ty)
            add += ' const %s : %s = %s ;' % (name, ty, val)
            fire('G8')
        out.append(t[pos:m.end()] + add)
        pos = m.end()
    out.append(t[pos:])
    t = ''.join(out)
    # G7: hoist non-literal associated consts
    out = []
    pos = 0
    counter = [0]
    for m in re.finditer(r'impl ([A-Za-z0-9_:]+(?: < [^>]* >)?) for (\w+) \{', t):
        end = balanced(t, m.end() - 1)
        body = t[m.end():end - 1]
        hoisted = []
        def hoist(cm):
            name, ty, expr = cm.group(1), cm.group(2).strip(), cm.group(3).strip()
            if re.fullmatch(r'[A-Za-z0-9_"\' .+-]+', expr) and '(' not in expr and '::' not in expr and expr != 'None':
                return cm.group(0)
            def assoc(am):
                tm = re.search(r'type %s = ([^;]+?) ;' % am.group(1), body)
                if not tm:
                    raise GlueError('associated type Self::%s of a hoisted const not found' % am.group(1))
                return tm.group(1)
            ty = re.sub(r'Self::(\w+)', assoc, ty)
            counter[0] += 1
            g = 'VERIF_G7_%d_%s' % (counter[0], name)
            hoisted.append('pub const %s : %s = %s ;' % (g, ty, expr))
            fire('G7')
            return 'const %s : %s = %s ;' % (name, cm.group(2).strip(), g)
        # only consts directly inside the impl block (depth 0 of body): consts precede the fns in the macro output
        head_end = body.find(' fn ')
        head = body if head_end < 0 else body[:head_end]
        new_head = re.sub(r'const (\w+) : ([^=;]+?) = ([^;]+?) ;', hoist, head)
        out.append(t[pos:m.start()] + ' '.join(hoisted) + (' ' if hoisted else '') + t[m.start():m.end()] + new_head + (body[head_end:] if head_end >= 0 else '') + '}')
        pos = end
    out.append(t[pos:])
    t = ''.join(out)
    # one item per line for readable diagnostics
    t = re.sub(r' (impl |pub struct |pub enum |struct |type )', r'\n\1', t)
    t = re.sub(r' (fn |const |open spec fn )', r'\n    \1', t)
    return t, rules


def insert_canaries(g):
    """vacuity guard: `assert(false);` as first statement of every generated exec function (each must be refuted)"""
    out = []
    pos = 0
    n = 0
    for m in re.finditer(r'(?<!spec )\bfn \w+', g):
        i = m.end()
        depth = 0
        while i < len(g):
            c = g[i]
            if c in '(<[':
                depth += 1
            elif c in ')>]':
                if not (c == '>' and g[i - 1] == '-'):
                    depth -= 1
            elif c == '{' and depth == 0:
                break
            elif c == ';' and depth == 0:
                i = -1
                break
            i += 1
        if i < 0 or i >= len(g):
            continue
        out.append(g[pos:i + 1] + ' assert(false); ')
        pos = i + 1
        n += 1
    out.append(g[pos:])
    return ''.join(out), n


if __name__ == '__main__':
    replay = os.path.join(VERIF, 'replay', 'target', 'release', 'replay')
    txt = macro_output(replay, sys.argv[1])
    g, rules = transform(txt)
    print(g)
    print('// rules fired:', rules, file=sys.stderr)
