#!/bin/bash
# usage: seedall.sh [prefix...]   -- regression over the stored seeded changes: every /verif/seeded/<id>/patch.diff is applied to /repo,
# the quick check of its property is run and the tree is restored.  Expected: rc=1 (VIOLATION) for every seed.
cd /verif
for d in seeded/*/; do
  id=$(basename $d); prop=${id%%-*}
  if [ $# -gt 0 ]; then ok=0; for p in "$@"; do [ "$prop" = "$p" ] && ok=1; done; [ $ok = 1 ] || continue; fi
  out=$(tools/seedrun.sh /verif/$d/patch.diff $prop 2>&1)
  rc=$(echo "$out" | grep -o "rc=[0-9]*" | head -1)
  echo "$id $rc $(echo "$out" | grep -E 'failed obligation|UNDECIDED' | head -1 | cut -c1-160)"
done
