#!/usr/bin/env python3
"""Check orchestration: extraction -> Verus (and Kani) -> verdict -> evidence.

    run.py check <ID> [--tier quick|thorough]
    run.py replay <path>
    run.py setup

Exit codes of `check`: 0 property held on everything explored; 1 violation (a line
`VIOLATION property=<id> replay=<path>` is printed); 2 undecided (anchor lost, tool failure,
vacuity guard tripped) -- never reported as a violation.
"""
import sys, os, re, json, time, subprocess, hashlib, shutil, argparse, glob

VERIF = os.path.dirname(os.path.dirname(os.path.abspath(__file__)))
REPO = os.environ.get('VERIF_REPO', '/repo')
GEN = os.path.join(VERIF, 'gen')
sys.path.insert(0, os.path.join(VERIF, 'tools'))
import extract  # noqa
import props    # noqa

ENV = dict(os.environ, CARGO_NET_OFFLINE='true')


def sh(cmd, timeout=None, cwd=None, env=None):
    """run a command in its own process group; on timeout the whole group is killed (cargo kani leaves cbmc behind otherwise)"""
    import signal
    t0 = time.time()
    p = subprocess.Popen(cmd, shell=isinstance(cmd, str), cwd=cwd, env=env or ENV, stdout=subprocess.PIPE, stderr=subprocess.PIPE,
                         text=True, start_new_session=True)
    try:
        out, err = p.communicate(timeout=timeout)
        return p.returncode, out, err, time.time() - t0
    except subprocess.TimeoutExpired:
        try:
            os.killpg(p.pid, signal.SIGKILL)
        except Exception:
            pass
        try:
            out, err = p.communicate(timeout=10)
        except Exception:
            out, err = '', ''
        return 124, out or '', 'TIMEOUT', time.time() - t0


class Undecided(Exception):
    pass


# --------------------------------------------------------------------------
# Verus
# --------------------------------------------------------------------------

def verus_unit(spec, features=(), canary=None, known_off=False, suffix='', seed=None, rlimit=None):
    """Extract + run verus. Returns result dict."""
    spec_path = os.path.join(VERIF, 'contracts', spec)
    try:
        unit, text, meta = extract.generate(spec_path, REPO, list(features), known_off=known_off, canary=canary)
    except extract.AnchorLost as ex:
        raise Undecided('anchor lost in %s: %s' % (spec, ex))
    except extract.SpecError as ex:
        raise Undecided('sidecar/self-check error in %s: %s' % (spec, ex))
    os.makedirs(GEN, exist_ok=True)
    base = os.path.join(GEN, unit.name + suffix)
    open(base + '.rs', 'w').write(text)
    json.dump(meta, open(base + '.map.json', 'w'), indent=1)
    flags = list(unit.flags)
    if rlimit:
        flags = [f for f in flags if not f.startswith('--rlimit')]
        flags = [f for i, f in enumerate(flags)]
    cmd = ['verus', base + '.rs', '--output-json', '--time', '--triggers-mode', 'silent', '--multiple-errors', '3'] + flags
    for f in features:
        cmd += ['--cfg', 'feature="%s"' % f]
    if seed:
        cmd += ['--smt-option', 'random_seed=%d' % seed]
    rc, out, err, wall = sh(cmd, timeout=1500)
    res = {'unit': unit.name + suffix, 'spec': spec, 'features': list(features), 'cmd': ' '.join(cmd), 'wall_s': round(wall, 2),
           'meta': meta, 'gen': base + '.rs', 'stderr': err, 'rc': rc}
    try:
        j = json.loads(out)
    except Exception:
        raise Undecided('verus produced no JSON for %s (rc=%s): %s' % (unit.name, rc, err[-2000:]))
    vr = j.get('verification-results', {})
    res['verified'] = vr.get('verified', 0)
    res['errors'] = vr.get('errors', 0)
    res['compile_error'] = bool(vr.get('encountered-error')) and vr.get('verified', 0) + vr.get('errors', 0) == 0
    res['vir_error'] = bool(vr.get('encountered-vir-error'))
    t = j.get('times-ms', {})
    res['smt_ms'] = t.get('smt', {}).get('total', 0)
    res['total_ms'] = t.get('total', 0)
    fb = []
    for m in t.get('smt', {}).get('smt-run-module-times', []):
        fb += m.get('function-breakdown', [])
    res['functions'] = [{'function': f['function'], 'mode': f.get('mode:'), 'success': f['success'], 'ms': f.get('time', 0), 'rlimit': f.get('rlimit')} for f in fb]
    res['failures'] = parse_failures(err, meta, base + '.rs')
    res['rlimit_hit'] = 'Resource limit (rlimit) exceeded' in err or 'rlimit exceeded' in err.lower()
    return res


def parse_failures(stderr, meta, genpath):
    """Group verus diagnostics into failed obligations attributed to extracted functions."""
    blocks = re.split(r'\n(?=error)', '\n' + stderr)
    fns = [f for f in meta['functions'] if 'gen_line_start' in f]
    gname = os.path.basename(genpath)
    out = []
    for b in blocks:
        m = re.match(r'error(?:\[\w+\])?: (.*)', b.strip())
        if not m:
            continue
        msg = m.group(1).strip()
        if msg.startswith('aborting due to') or msg.startswith('could not compile'):
            continue
        lines = [int(x) for x in re.findall(re.escape(gname) + r':(\d+):\d+', b)]
        owner = None
        # prefer functions with a body (impl / free fn) containing any referenced line
        for ln in lines:
            for f in fns:
                if f.get('has_body') and f['gen_line_start'] <= ln <= f['gen_line_end']:
                    owner = f
                    break
            if owner:
                break
        if owner is None:
            for ln in lines:
                for f in fns:
                    if f['gen_line_start'] <= ln <= f['gen_line_end']:
                        owner = f
                        break
                if owner:
                    break
        clause = ''
        mm = re.search(r'\|\s*\n\s*\d+ \|\s*/?\s*(.*)', b)
        snippet = '\n'.join(b.strip().split('\n')[:14])
        out.append({'kind': msg, 'lines': lines, 'function': owner['fn'] if owner else None,
                    'repo_file': owner['file'] if owner else None,
                    'repo_lines': [owner['line_start'], owner['line_end']] if owner else None,
                    'diagnostic': snippet})
    return out


def canary_unit(spec, features=()):
    """Vacuity guard: `assert(false)` at the start of every function under contract must be refuted."""
    res = verus_unit(spec, features, canary='ALL', suffix='_canary' + ('_on' if features else ''))
    if res['compile_error']:
        raise Undecided('canary variant of %s does not compile: %s' % (spec, res['stderr'][-1500:]))
    expected = [f for f in res['meta']['functions'] if f.get('has_body') and not f['assumed']]
    failed_lines = set()
    for f in res['failures']:
        if f['function']:
            failed_lines.add(f['function'])
    vacuous = [f['fn'] for f in expected if f['fn'] not in failed_lines]
    return {'unit': res['unit'], 'expected': len(expected), 'refuted': len(expected) - len(vacuous), 'vacuous': vacuous, 'wall_s': res['wall_s']}


# --------------------------------------------------------------------------
# Glue: the code the real proc macros of the current tree emit for the zoo schemas, verified against the trait contracts
# that unit uper ASSUMES of generated code (tools/glue.py: rules G1-G7)
# --------------------------------------------------------------------------

def glue_unit(replay_bin, schemas, canary=False, flt=None):
    """flt: regex over the obligation label `glue::<schema>::<Type as Trait>::<fn>` / `glue::<schema>::<proof fn>`; obligations outside
    it belong to other properties: they are verified in the same run but neither counted nor reported for this property"""
    import glue
    parts = []
    info = []
    for sch in schemas:
        path = os.path.join(VERIF, 'contracts', 'zoo', sch)
        try:
            txt = glue.macro_output(replay_bin, path)
            g, rules = glue.transform(txt, REPO, glue.parse_facts(open(path).read()), glue.parse_cfacts(open(path).read()))
            n_fns = len(re.findall(r'(?<!spec )\bfn \w+', g))
            if canary:
                g, n_ins = glue.insert_canaries(g)
            else:
                n_ins = 0
        except glue.GlueError as ex:
            raise Undecided('the glue rules G1-G13 do not cover what the macros of this tree emit for %s: %s' % (sch, ex))
        except subprocess.TimeoutExpired:
            raise Undecided('replay gen %s did not return' % sch)
        mod = 'glue_' + re.sub(r'\W', '_', sch.rsplit('.', 1)[0])
        parts.append('// VERIF-GLUE-BEGIN %s\npub mod %s { use super::*;\n%s\n}\n// VERIF-GLUE-END %s\n' % (sch, mod, g, sch))
        info.append({'schema': sch, 'rules_fired': rules, 'generated_fns': n_fns, 'canaries': n_ins,
                     'types': sorted(set(re.findall(r'impl (?:sequence|set|choice|enumerated)::Constraint for (\w+)', g)))})
    os.makedirs(GEN, exist_ok=True)
    open(os.path.join(GEN, 'glue_zoo.txt'), 'w').write(''.join(parts))
    r = verus_unit('glue.spec', suffix='_canary' if canary else '')
    r['glue'] = info
    r['verified_raw'] = r['verified']
    # label every generated function: `glue::<schema>::<Type as Trait>::<fn>` resp. `glue::<schema>::<proof fn>`
    lines = open(r['gen']).read().split('\n')
    region = {}
    label_at = {}       # line -> label of the function that starts there
    cur = None
    cur_impl = None
    for i, l in enumerate(lines, 1):
        if l.startswith('// VERIF-GLUE-BEGIN '):
            cur = l.split(' ', 2)[2].strip()
            cur_impl = None
        elif l.startswith('// VERIF-GLUE-END '):
            cur = None
        elif cur:
            region[i] = cur
            m = re.match(r'impl(?:<[^>]*>)? (.+?) for (\w+)', l)
            if m:
                cur_impl = '%s as %s' % (m.group(2), m.group(1).strip())
            m = re.match(r'\s*(proof )?fn (\w+)', l)
            if m:
                label_at[i] = ('glue::%s::%s' % (cur, m.group(2))) if m.group(1) else ('glue::%s::%s::%s' % (cur, cur_impl or '?', m.group(2)))
    starts = sorted(label_at)
    import bisect
    def owner(ln):
        k = bisect.bisect_right(starts, ln) - 1
        return (starts[k], label_at[starts[k]]) if k >= 0 else (None, None)
    for f in r['failures']:
        inside = [ln for ln in f['lines'] + [int(x) for x in re.findall(r'^\s*(\d+) \|', f['diagnostic'], re.M)] if ln in region]
        if not inside:
            continue
        # a diagnostic names the callee's contract line and the generated line: the generated one is the one inside the region
        ln = inside[0]
        st, lab = owner(ln)
        f['function'] = lab or ('glue::%s::?' % region[ln])
        f['glue'] = True
        f['repo_file'] = 'asn1rs-model/src/proc_macro + asn1rs-model/src/generate/walker.rs (macro output for contracts/zoo/%s)' % region[ln]
        f['glue_has_loop'] = bool(st) and bool(re.search(r'\bwhile\b|\bloop\s*\{|\bfor\s+\S+\s+in\b', lines[st - 1]))
    labels = [label_at[k] for k in starts]
    mine = [l for l in labels if (flt is None or re.search(flt, l))]
    others = [f for f in r['failures'] if f.get('glue') and flt is not None and not re.search(flt, f['function'])]
    r['failures'] = [f for f in r['failures'] if f not in others]
    r['other_property_failures'] = sorted(set(f['function'] for f in others))
    # obligations of this unit = the generated functions relevant to the property (the surrounding declarations are those of unit uper)
    if not (r['compile_error'] or r['vir_error']):
        bad = len(set(f['function'] for f in r['failures']))
        r['verified'], r['errors'] = max(len(mine) - bad, 0), bad
        r['glue_obligations'] = len(mine)
    return r


# --------------------------------------------------------------------------
# Kani
# --------------------------------------------------------------------------

KANI_DIR = os.path.join(VERIF, 'kani')


def kani_prepare():
    # the harness crate resolves exactly the dependency versions the repository pins (offline)
    lock = os.path.join(KANI_DIR, 'Cargo.lock')
    if not os.path.exists(lock):
        shutil.copyfile(os.path.join(REPO, 'Cargo.lock'), lock)
    tmpl = os.path.join(KANI_DIR, 'Cargo.toml.in')
    if os.path.exists(tmpl):
        txt = open(tmpl).read().replace('@REPO@', REPO)
        cur = os.path.join(KANI_DIR, 'Cargo.toml')
        if not os.path.exists(cur) or open(cur).read() != txt:
            open(cur, 'w').write(txt)


def kani_harness(name, timeout, extra=()):
    env = dict(ENV)
    cmd = ['cargo', 'kani', '--harness', name, '--output-format', 'terse'] + list(extra)
    rc, out, err, wall = sh(cmd, timeout=timeout, cwd=KANI_DIR, env=env)
    txt = out + '\n' + err
    res = {'harness': name, 'cmd': ' '.join(cmd), 'wall_s': round(wall, 1), 'rc': rc}
    m = re.search(r'VERIFICATION:- (SUCCESSFUL|FAILED)', txt)
    res['status'] = m.group(1) if m else ('TIMEOUT' if rc == 124 else 'ERROR')
    m = re.search(r'\*\* (\d+) of (\d+) failed', txt)
    if m:
        res['checks_failed'] = int(m.group(1))
        res['checks'] = int(m.group(2))
    m = re.search(r'\*\* (\d+) of (\d+) cover properties satisfied', txt)
    if m:
        res['covers_sat'] = int(m.group(1))
        res['covers'] = int(m.group(2))
    res['failed_checks'] = re.findall(r'Failed Checks: (.*)', txt)
    m = re.search(r'Verification Time: ([\d.]+)s', txt)
    if m:
        res['solver_s'] = float(m.group(1))
    if res['status'] in ('ERROR',):
        res['tail'] = txt[-3000:]
    res['unwind_fail'] = any('unwinding assertion' in c for c in res['failed_checks'])
    return res


def kani_many(names, timeout, jobs):
    from concurrent.futures import ThreadPoolExecutor
    if not names:
        return []
    # build once (first harness) so that parallel runs share the compiled artefacts
    with ThreadPoolExecutor(max_workers=jobs) as ex:
        return list(ex.map(lambda n: kani_harness(n, timeout), names))


# --------------------------------------------------------------------------
# replay / directed search
# --------------------------------------------------------------------------

REPLAY_DIR = os.path.join(VERIF, 'replay')


def replay_build(descriptive=False):
    shutil.copyfile(os.path.join(REPO, 'Cargo.lock'), os.path.join(REPLAY_DIR, 'Cargo.lock'))
    tmpl = open(os.path.join(REPLAY_DIR, 'Cargo.toml.in')).read().replace('@REPO@', REPO)
    cur = os.path.join(REPLAY_DIR, 'Cargo.toml')
    if not os.path.exists(cur) or open(cur).read() != tmpl:
        open(cur, 'w').write(tmpl)
    cmd = ['cargo', 'build', '--release', '--offline', '--bin', 'replay']
    tdir = 'target'
    if descriptive:
        # second configuration (C19): same harness, real crate compiled with feature descriptive-deserialize-errors
        tdir = 'target_on'
        cmd += ['--features', 'descriptive', '--target-dir', tdir]
    rc, out, err, wall = sh(cmd, cwd=REPLAY_DIR, timeout=1200)
    if rc != 0:
        raise Undecided('replay crate does not build against the current tree%s: %s' % (' (feature descriptive-deserialize-errors)' if descriptive else '', err[-2500:]))
    return os.path.join(REPLAY_DIR, tdir, 'release', 'replay')


def gluezoo_build():
    """second binary of the replay crate, built on demand only: the zoo schemas of unit glue compiled by the real proc macro of the current
    tree, with a generic round-trip harness (counterexample engine for failed glue obligations; replay/src/bin/gluezoo.rs)"""
    mods, table = [], []
    for sch in props.GLUE_ZOO:
        text = open(os.path.join(VERIF, 'contracts', 'zoo', sch)).read()
        mod = re.sub(r'\W', '_', sch.rsplit('.', 1)[0])
        mods.append('pub mod %s {\n    use asn1rs::prelude::*;\n    asn_to_rust!(\n        r#"%s"#\n    );\n}\n' % (mod, text))
        for m in re.finditer(r'^\s*([A-Z]\w*)\s*::=', text, re.M):
            table.append('    ("%s::%s", rt::<%s::%s>),' % (sch, m.group(1), mod, m.group(1)))
    gen = ('// GENERATED from contracts/zoo/*.asn by tools/run.py -- do not edit\n' + '\n'.join(mods)
           + '\npub const TYPES: &[(&str, fn(&[u8], usize) -> Result<bool, String>)] = &[\n' + '\n'.join(table) + '\n];\n')
    path = os.path.join(REPLAY_DIR, 'src', 'gluezoo_gen.rs')      # (not under src/bin: cargo would take it for a binary of its own)
    if not os.path.exists(path) or open(path).read() != gen:
        open(path, 'w').write(gen)
    replay_build()      # Cargo.toml / Cargo.lock in place
    rc, out, err, wall = sh(['cargo', 'build', '--release', '--offline', '--bin', 'gluezoo'], cwd=REPLAY_DIR, timeout=1200)
    if rc != 0:
        raise Undecided('the zoo schemas of unit glue do not compile with the macros of the current tree: %s' % err[-1500:])
    return os.path.join(REPLAY_DIR, 'target', 'release', 'gluezoo')


def gluezoo_search(seed, budget, obligation):
    """(failing input as dict or None, tail of the output)"""
    binary = gluezoo_build()
    m = re.search(r'glue::([\w.]+)::(?:verif_g\d+_\w+?_)?(\w+?)(?: as |::|$)', obligation)
    only = []
    if m:
        only = ['%s::%s' % (m.group(1), m.group(2))]
    for flt in (only, []):
        if flt == [] and only == []:
            pass
        rc, out, err, wall = sh([binary, 'search', str(seed), str(budget)] + flt, timeout=600)
        if rc == 1:
            mm = re.search(r'FAILING-INPUT (.*)', out)
            if mm:
                return json.loads(mm.group(1)), out[-3000:]
        elif rc != 0:
            # the process died inside the real code: rerun is not worth it here, report the tail
            return None, (out + err)[-1500:]
        if not only:
            break
    return None, out[-600:]


def replay_run(binary, args, timeout=600):
    rc, out, err, wall = sh([binary] + args, timeout=timeout)
    if rc not in (0, 1, 2, 124) and args and args[0] in ('search', 'probe', 'replay'):
        # the process died inside the real code (allocator abort, stack overflow, ...): that is a failing input, not a tool error
        died = 'process terminated abnormally (exit status %s): %s' % (rc, err.strip().split('\n')[0][:300] if err.strip() else '')
        if args[0] == 'search':
            last = os.path.join(GEN, 'last_input.json')
            os.makedirs(GEN, exist_ok=True)
            env = dict(os.environ, VERIF_LOG_LAST_INPUT=last)
            try:
                if os.path.exists(last):
                    os.remove(last)
                subprocess.run([binary] + args, env=env, stdout=subprocess.PIPE, stderr=subprocess.PIPE, timeout=timeout)
            except Exception:
                pass
            if os.path.exists(last):
                out += '\ncontract violated: %s\nFAILING-INPUT %s\n' % (died, open(last).read().strip())
            else:
                out += '\ncontract violated: %s\n' % died
        else:
            out += '\n' + died + '\n'
        rc = 1
    return rc, out, err, wall


# --------------------------------------------------------------------------
# known findings
# --------------------------------------------------------------------------

def load_known():
    p = os.path.join(VERIF, 'known_findings.json')
    if not os.path.exists(p):
        return {'findings': [], 'fixed': []}
    return json.load(open(p))


# --------------------------------------------------------------------------
# check
# --------------------------------------------------------------------------

def write_replay_file(pid, name, payload):
    d = os.path.join(VERIF, 'replays')
    os.makedirs(d, exist_ok=True)
    path = os.path.join(d, '%s_%s.json' % (pid, name))
    json.dump(payload, open(path, 'w'), indent=1)
    return path


def check(pid, tier, seed):
    t0 = time.time()
    cfg = props.PROPS[pid]
    known = load_known()
    ev = {'property_id': pid, 'tier': tier, 'seed': seed, 'level': 'proof', 'wall_s': 0, 'violations': 0,
          'coverage': {}, 'assumptions': list(cfg.get('assumptions', []))}
    cov = ev['coverage']
    verus_runs = []
    canaries = []
    kani_runs = []
    search_runs = []
    violations = []     # (obligation name, replay path, has_input)
    known_lines = []
    undecided = []

    # ---- Verus units
    for u in cfg.get('verus', []):
        variants = u.get('variants', [()])
        for feats in variants:
            try:
                r = verus_unit(u['spec'], feats, suffix=('_on' if feats else ''))
                if r['compile_error'] or r['vir_error']:
                    raise Undecided('verus could not process unit %s (contract names something that no longer exists, or an unsupported construct): %s'
                                    % (r['unit'], r['stderr'][-2500:]))
                if r['errors'] > 0 and (r['rlimit_hit']):
                    r2 = verus_unit(u['spec'], feats, suffix=('_on' if feats else ''), seed=(seed % 1000) + 7)
                    if r2['errors'] == 0:
                        r = r2
                    elif r2['rlimit_hit'] and not [f for f in r2['failures'] if 'rlimit' not in f['kind'].lower()]:
                        raise Undecided('resource limit exceeded in unit %s' % r['unit'])
                verus_runs.append(r)
            except Undecided as ex:
                undecided.append(str(ex))
    # ---- vacuity canaries
    if not undecided:
        for u in cfg.get('verus', []):
            if u.get('dependency') and tier == 'quick':
                continue
            for feats in u.get('variants', [()]):
                try:
                    c = canary_unit(u['spec'], feats)
                    canaries.append(c)
                    if c['vacuous']:
                        undecided.append('vacuity guard: assert(false) verified in %s (contradictory pre-condition?)' % ', '.join(c['vacuous']))
                except Undecided as ex:
                    undecided.append(str(ex))

    # ---- un-carved obligations of known findings (thorough tier, informational: a failure here is attributed to the KF)
    uncarved = []
    if tier == 'thorough' and not undecided:
        for r0 in list(verus_runs):
            if r0['meta'].get('known_clauses'):
                try:
                    ru = verus_unit(r0['spec'], r0['features'], known_off=True, suffix='_uncarved')
                    uncarved.append({'unit': ru['unit'], 'known': r0['meta']['known_clauses'], 'verified': ru['verified'], 'errors': ru['errors'],
                                     'failed_functions': sorted(set((f['function'] or '?').split(' :: ')[-1] for f in ru['failures']))})
                except Undecided as ex:
                    uncarved.append({'unit': r0['unit'], 'error': str(ex)[:300]})
    # ---- Kani harnesses
    harnesses = list(cfg.get('kani_quick', []))
    if tier == 'thorough':
        harnesses += cfg.get('kani_thorough', [])
    if harnesses and not undecided:
        kani_prepare()
        first = kani_harness(harnesses[0][0], harnesses[0][1])
        kani_runs.append(dict(first, complete=harnesses[0][2]))
        rest = kani_many([h[0] for h in harnesses[1:]], max([h[1] for h in harnesses] + [60]), jobs=int(os.environ.get('VERIF_KANI_JOBS', '6')))
        for h, r in zip(harnesses[1:], rest):
            kani_runs.append(dict(r, complete=h[2]))

    # ---- failed Verus obligations -> counterexample search
    failed_obls = []
    for r in verus_runs:
        for f in r['failures']:
            name = '%s::%s::%s' % (r['unit'], (f['function'] or '?').split(' :: ')[-1], f['kind'])
            failed_obls.append((r, f, name))
    replay_bin = None
    search_cache = {}
    applies = lambda e: e['property'] == pid or pid in e.get('also', [])
    need_replay = bool(cfg.get('glue')) or bool(failed_obls) or bool(cfg.get('bounded_search')) or any(applies(e) for e in known['findings'] + known.get('fixed', [])) or any(k['status'] == 'FAILED' for k in kani_runs) or cfg.get('search_always')
    if (need_replay or (undecided and cfg.get('search_groups'))) and os.path.exists(os.path.join(REPLAY_DIR, 'Cargo.toml.in')):
        try:
            replay_bin = replay_build()
        except Undecided as ex:
            undecided.append(str(ex))

    # ---- glue units: real macro output for the zoo schemas against the trait contracts assumed of generated code
    glue_info = None
    if cfg.get('glue') and replay_bin and not undecided:
        try:
            rg = glue_unit(replay_bin, cfg['glue'], flt=cfg.get('glue_filter'))
            if rg['compile_error'] or rg['vir_error']:
                raise Undecided('verus could not process the glue unit (the macro output uses a construct outside rules G1-G7 / the Verus subset): %s' % rg['stderr'][-2500:])
            if rg['errors'] > 0 and rg['rlimit_hit']:
                raise Undecided('resource limit exceeded in the glue unit')
            loops = [f['function'] for f in rg['failures'] if f.get('glue_has_loop')]
            if loops:
                raise Undecided('generated code with a loop failed to verify (no invariant can be attached to macro output): %s' % ', '.join(loops))
            verus_runs.append(rg)
            glue_info = {'schemas': rg['glue'], 'filter': cfg.get('glue_filter'), 'obligations_for_this_property': rg.get('glue_obligations'),
                         'failures_belonging_to_other_properties': rg.get('other_property_failures', [])}
            for f in rg['failures']:
                name = ('%s::%s' % (f['function'], f['kind'])) if f.get('glue') else '%s::%s::%s' % (rg['unit'], (f['function'] or '?'), f['kind'])
                failed_obls.append((rg, f, name))
            if not rg['failures']:
                cg = glue_unit(replay_bin, cfg['glue'], canary=True, flt=cfg.get('glue_filter'))
                if cg['compile_error'] or cg['vir_error'] or not cg.get('glue_obligations'):
                    raise Undecided('the vacuity-guard copy of the glue unit could not be processed: %s' % cg['stderr'][-800:])
                want = cg.get('glue_obligations', 0)
                refuted = len(set(f['function'] for f in cg['failures'] if f.get('glue') and 'assertion failed' in f['kind']))
                canaries.append({'unit': 'glue_canary', 'expected': want, 'refuted': refuted, 'vacuous': [] if refuted >= want else ['%d generated functions' % (want - refuted)], 'wall_s': cg['wall_s']})
                if refuted < want:
                    undecided.append('vacuity guard: assert(false) verified in %d generated glue functions' % (want - refuted))
        except Undecided as ex:
            undecided.append(str(ex))

    # known-finding probes (each listed finding is replayed against the real code)
    kf_active = {}
    if replay_bin:
        for kf in known['findings']:
            if kf['property'] != pid and pid not in kf.get('also', []):
                continue
            rc, out, err, wall = replay_run(replay_bin, ['probe', kf['probe']])
            still = (rc == 1)
            kf_active[kf['id']] = still
            if still:
                known_lines.append('KNOWN-FINDING: property=%s %s %s' % (pid, kf['id'], kf['what']))
            elif rc == 0:
                print('note: known finding %s no longer reproduces (probe passes)' % kf['id'])
            else:
                undecided.append('probe %s could not run: %s' % (kf['probe'], (out + err)[-500:]))
        for fx in known.get('fixed', []):
            if fx['property'] != pid and pid not in fx.get('also', []):
                continue
            if not fx.get('probe'):
                continue
            rc, out, err, wall = replay_run(replay_bin, ['probe', fx['probe']])
            search_runs.append({'probe': fx['probe'], 'rc': rc, 'regression_of': fx['commit']})
            if rc == 1:
                path = write_replay_file(pid, 'regression_' + fx['probe'], {'property': pid, 'kind': 'probe', 'probe': fx['probe'], 'output': out[-3000:],
                                                                            'note': 'a defect that was repaired in %s reproduces again' % fx['commit']})
                violations.append(('probe::' + fx['probe'], path, True))

    # ---- bounded stand-ins: exhaustive bounded enumeration on the real code for the functions between the property and the
    # verified contracts that are not (yet) under contract; labelled bounded, never counted as discharged obligations
    bounded_runs = []
    if cfg.get('bounded_search') and os.path.exists(os.path.join(REPLAY_DIR, 'Cargo.toml.in')):
        try:
            if replay_bin is None:
                replay_bin = replay_build()
            for (group, bound) in cfg['bounded_search']:
                if group in search_cache:
                    rc, out = search_cache[group]
                    wall = 0
                else:
                    rc, out, err, wall = replay_run(replay_bin, ['search', group, str(seed), '20000' if tier == 'quick' else '400000'], timeout=900)
                    search_cache[group] = (rc, out)
                mm = re.search(r'among (\d+) inputs', out)
                bounded_runs.append({'group': group, 'bound': bound, 'rc': rc, 'inputs': int(mm.group(1)) if mm else None, 'wall_s': round(wall, 1)})
                if rc == 1:
                    m = re.search(r'FAILING-INPUT (.*)', out)
                    if m:
                        payload = {'property': pid, 'obligation': 'bounded stand-in %s (%s)' % (group, bound), 'kind': 'obligation', 'verifier': 'bounded enumeration on the real code',
                                   'verifier_output': out[-2000:], 'input': json.loads(m.group(1)), 'search_output': out[-3000:]}
                        path = write_replay_file(pid, 'bounded_' + group, payload)
                        violations.append(('bounded::' + group, path, True))
                elif rc != 0:
                    undecided.append('bounded stand-in %s could not run: %s' % (group, (out + err)[-300:]))
        except Undecided as ex:
            undecided.append(str(ex))

    # ---- thorough tier: deeper exploration with the counterexample engine (three seeds, large budget); sampled, labelled, never counted
    exploration = []
    if tier == 'thorough' and cfg.get('search_groups') and not undecided and os.path.exists(os.path.join(REPLAY_DIR, 'Cargo.toml.in')):
        try:
            if replay_bin is None:
                replay_bin = replay_build()
            for group in cfg['search_groups']:
                for sd in (seed, seed + 1, seed + 2):
                    rc, out, err, wall = replay_run(replay_bin, ['search', group, str(sd), '400000'], timeout=1500)
                    mm = re.search(r'among (\d+) inputs', out)
                    exploration.append({'group': group, 'seed': sd, 'rc': rc, 'inputs': int(mm.group(1)) if mm else None, 'wall_s': round(wall, 1)})
                    if rc == 1:
                        m = re.search(r'FAILING-INPUT (.*)', out)
                        if m:
                            payload = {'property': pid, 'obligation': 'thorough exploration of search group %s (seed %d)' % (group, sd), 'kind': 'obligation',
                                       'verifier': 'directed search on the real code', 'verifier_output': out[-2000:], 'input': json.loads(m.group(1)), 'search_output': out[-3000:]}
                            path = write_replay_file(pid, 'explore_' + group, payload)
                            violations.append(('explore::' + group, path, True))
                        break
                    elif rc != 0:
                        break
        except Undecided as ex:
            undecided.append(str(ex))

    if undecided and cfg.get('search_groups') and os.path.exists(os.path.join(REPLAY_DIR, 'Cargo.toml.in')):
        try:
            if replay_bin is None:
                replay_bin = replay_build()
            for group in cfg['search_groups']:
                rc, out, err, wall = replay_run(replay_bin, ['search', group, str(seed), '20000' if tier == 'quick' else '400000'], timeout=900)
                search_runs.append({'group': group, 'rc': rc, 'wall_s': round(wall, 1), 'reason': 'verifier undecided', 'summary': out.strip().split('\n')[-1][:300] if out.strip() else ''})
                if rc == 1:
                    m = re.search(r'FAILING-INPUT (.*)', out)
                    if m:
                        payload = {'property': pid, 'obligation': 'executable contract of search group %s (verifier undecided: %s)' % (group, undecided[0][:200]),
                                   'kind': 'obligation', 'verifier': 'none (undecided)', 'verifier_output': undecided[0][:3000],
                                   'input': json.loads(m.group(1)), 'search_output': out[-3000:]}
                        path = write_replay_file(pid, 'search_' + group, payload)
                        violations.append(('search::' + group, path, True))
        except Undecided as ex:
            undecided.append(str(ex))

    for (r, f, name) in failed_obls:
        fn_short = (f['function'] or '?')
        group = None
        for pat, g in props.SEARCH_GROUPS:
            if re.search(pat, fn_short):
                group = g
                break
        payload = {'property': pid, 'obligation': name, 'function': f['function'], 'repo_file': f['repo_file'], 'repo_lines': f['repo_lines'],
                   'unit': r['unit'], 'verifier': 'verus', 'verifier_cmd': r['cmd'], 'verifier_output': f['diagnostic'], 'kind': 'obligation'}
        found = None
        if f.get('glue'):
            # failed obligation on macro output: look for an input on the same zoo types compiled by the real macro of this tree
            try:
                key = 'gluezoo:' + name.split('::')[2] if name.count('::') >= 2 else 'gluezoo'
                if key not in search_cache:
                    search_cache[key] = gluezoo_search(seed, 200000 if tier == 'quick' else 2000000, name)
                    search_runs.append({'group': 'gluezoo', 'for': name[:160], 'found': search_cache[key][0] is not None, 'summary': search_cache[key][1].strip().split('\n')[-1][:300]})
                inp, tail = search_cache[key]
                if inp is not None:
                    found = json.dumps(inp)
                    payload['input'] = inp
                    payload['search_output'] = tail
            except Undecided as ex:
                payload['counterexample_search'] = 'gluezoo not available: %s' % str(ex)[:600]
        groups = [group] if group else []
        groups += [g for g in cfg.get('search_groups', []) if g not in groups]
        for g in groups:
            if not replay_bin or found:
                break
            if g in search_cache:
                rc, out = search_cache[g]
            else:
                rc, out, err, wall = replay_run(replay_bin, ['search', g, str(seed), '20000' if tier == 'quick' else '400000'], timeout=900)
                search_cache[g] = (rc, out)
                search_runs.append({'group': g, 'rc': rc, 'wall_s': round(wall, 1), 'summary': out.strip().split('\n')[-1][:300] if out.strip() else ''})
            if rc == 1:
                m = re.search(r'FAILING-INPUT (.*)', out)
                if m:
                    found = m.group(1)
                    payload['input'] = json.loads(found)
                    payload['search_output'] = out[-3000:]
        path = write_replay_file(pid, re.sub(r'[^A-Za-z0-9_]+', '_', name)[:120], payload)
        violations.append((name, path, found is not None))

    for k in kani_runs:
        if k['status'] == 'FAILED':
            payload = {'property': pid, 'obligation': 'kani::' + k['harness'], 'verifier': 'kani', 'verifier_cmd': k['cmd'],
                       'verifier_output': '\n'.join(k['failed_checks'])[:3000], 'kind': 'obligation', 'harness': k['harness']}
            found = None
            group = props.KANI_GROUP.get(k['harness'])
            if k.get('unwind_fail') and len(k['failed_checks']) == sum(1 for c in k['failed_checks'] if 'unwinding' in c):
                undecided.append('kani harness %s: only unwinding assertions failed (bound too small for the changed code)' % k['harness'])
                continue
            if replay_bin and group:
                rc, out, err, wall = replay_run(replay_bin, ['search', group, str(seed), '20000' if tier == 'quick' else '400000'], timeout=900)
                search_runs.append({'group': group, 'rc': rc, 'wall_s': round(wall, 1), 'summary': out.strip().split('\n')[-1][:300] if out.strip() else ''})
                if rc == 1:
                    m = re.search(r'FAILING-INPUT (.*)', out)
                    if m:
                        found = m.group(1)
                        payload['input'] = json.loads(found)
                        payload['search_output'] = out[-3000:]
            path = write_replay_file(pid, 'kani_' + k['harness'], payload)
            violations.append(('kani::' + k['harness'], path, found is not None))
        elif k['status'] in ('TIMEOUT', 'ERROR'):
            undecided.append('kani harness %s: %s %s' % (k['harness'], k['status'], k.get('tail', '')[-800:]))
        elif k.get('covers') is not None and k.get('covers_sat', 0) < k.get('covers', 0):
            undecided.append('kani harness %s: %d of %d cover properties unsatisfied (vacuous assumption?)' % (k['harness'], k['covers'] - k['covers_sat'], k['covers']))

    # ---- C19 side condition: syntactic frame rule over every cfg-gated site (tools/cfggate.py)
    static_sites = []
    if cfg.get('static_cfggate'):
        import cfggate
        static_sites = cfggate.scan(REPO)
        on_fns = set()
        for r in verus_runs:
            if r['features']:
                for f in r['meta']['functions']:
                    if not f['assumed']:
                        on_fns.add(f['fn'].split(' :: ')[-1])
        for st in static_sites:
            if st['accepted']:
                st['decided_by'] = 'frame rule ' + st['kind']
            elif st.get('fn') and st['fn'].split(' :: ')[-1] in on_fns and not failed_obls:
                st['decided_by'] = 'verus (feature-on variant of the enclosing function verifies against the same contract)'
            else:
                st['decided_by'] = None
                undecided.append('cfg-gated code at %s:%d in %s is outside the frame rule (%s) and its function is not under contract' % (st['file'], st['line'], st.get('fn'), st.get('why')))

    # ---- C19 differential stand-in: the same inputs through both builds of the real crate (sampled, not a proof)
    differential = None
    if cfg.get('differential') and os.path.exists(os.path.join(REPLAY_DIR, 'Cargo.toml.in')):
        try:
            b_off = replay_bin or replay_build()
            replay_bin = b_off
            b_on = replay_build(descriptive=True)
            budget = '5000' if tier == 'quick' else '100000'
            rc1, out1, err1, w1 = sh([b_off, 'trace', 'decode', str(seed), budget], timeout=900)
            rc2, out2, err2, w2 = sh([b_on, 'trace', 'decode', str(seed), budget], timeout=900)
            l1, l2 = out1.split('\n'), out2.split('\n')
            differential = {'inputs': len(l1) - 1, 'wall_s': round(w1 + w2, 1), 'rc': [rc1, rc2], 'mismatch': None,
                            'what': 'trace of group decode (random / truncated / bit-flipped input through every Reader method), feature off vs on'}
            if rc1 != 0 or rc2 != 0:
                undecided.append('differential trace did not complete (rc %s / %s): %s' % (rc1, rc2, (err1 + err2)[-300:]))
            else:
                for a, b in zip(l1, l2):
                    if a != b:
                        differential['mismatch'] = {'off': a[:600], 'on': b[:600]}
                        inp = a.split(' => ')[0]
                        payload = {'property': pid, 'obligation': 'differential: same outcome with and without feature descriptive-deserialize-errors', 'kind': 'differential',
                                   'verifier': 'two builds of the real crate', 'verifier_output': 'off: %s\non:  %s' % (a[:600], b[:600]), 'input': json.loads(inp)}
                        path = write_replay_file(pid, 'differential', payload)
                        violations.append(('differential::decode', path, True))
                        break
        except Undecided as ex:
            undecided.append(str(ex))

    # ---- evidence
    obligations = sum(r['verified'] + r['errors'] for r in verus_runs) + sum(k.get('checks', 0) for k in kani_runs if k.get('complete'))
    discharged = sum(r['verified'] for r in verus_runs) + sum(k.get('checks', 0) - k.get('checks_failed', 0) for k in kani_runs if k.get('complete') and k['status'] == 'SUCCESSFUL')
    obligations += len(static_sites)
    discharged += sum(1 for st in static_sites if st.get('decided_by'))
    under_contract = []
    assumed = []
    rewrites = {}
    trusted = set(cfg.get('trusted_base', []))
    for r in verus_runs:
        for f in r['meta']['functions']:
            label = '%s [%s:%d-%d]' % (f['fn'].split(' :: ', 1)[1] if ' :: ' in f['fn'] else f['fn'], f['file'], f['line_start'], f['line_end'])
            if f.get('trusted'):
                trusted.add('contract ASSUMED, body not verified (outside the Verus subset): ' + label)
            else:
                (assumed if f['assumed'] else under_contract).append(label)
        for w in r['meta']['rewrites']:
            rewrites[w['rule']] = rewrites.get(w['rule'], 0) + 1
        gen_text = open(r['gen']).read()
        # functions whose body is replaced here because they are PROVED in their home unit (rule A0) are not trusted: listed separately
        a0 = set(f['fn'].split(' :: ')[-1] for f in r['meta']['functions'] if f['assumed'] and not f.get('trusted'))
        for m in re.finditer(r'#\[verifier::external_body\]\s*(?:pub\s+)?(?:proof\s+)?fn\s+(\w+)', gen_text):
            if m.group(1) not in a0:
                trusted.add('external_body: ' + m.group(1))
        for m in re.finditer(r'assume_specification(?:<[^>]*>)?\s*\[\s*([^\]]+)\]', gen_text):
            trusted.add('assume_specification: ' + re.sub(r'\s+', '', m.group(1)))
        if re.search(r'\badmit\(\)|\bassume\(', re.sub(r'//.*', '', gen_text)):
            trusted.add('WARNING: admit()/assume() present in generated unit ' + r['unit'])
    samples = []
    for r in verus_runs:
        for f in sorted(r['functions'], key=lambda x: -x['ms'])[:6]:
            samples.append({'obligation': f['function'], 'backend': 'verus/z3', 'verdict': 'discharged' if f['success'] else 'FAILED', 'ms': f['ms']})
    for k in kani_runs:
        samples.append({'obligation': 'kani::' + k['harness'], 'backend': 'kani/cbmc', 'verdict': k['status'], 'checks': k.get('checks'),
                        'complete': bool(k.get('complete')), 'wall_s': k['wall_s']})
    for v in violations:
        samples.append({'obligation': v[0], 'verdict': 'VIOLATION', 'replay': v[1], 'failing_input_found': v[2]})
    cov.update({
        'obligations': obligations, 'discharged': discharged,
        'checker_cmd': '; '.join([r['cmd'] for r in verus_runs] + [k['cmd'] for k in kani_runs][:4]) or 'n/a',
        'trusted_base': sorted(trusted),
        'samples': samples[:40],
        'verus_units': [{'unit': r['unit'], 'features': r['features'], 'verified': r['verified'], 'errors': r['errors'], 'wall_s': r['wall_s'],
                         'smt_ms': r['smt_ms'], 'functions_checked': len(r['functions'])} for r in verus_runs],
        'vacuity_canaries': canaries,
        'kani_harnesses': [{k2: v for k2, v in k.items() if k2 not in ('tail',)} for k in kani_runs],
        'bounded_enumeration_stand_ins': bounded_runs,
        'bounded_stand_ins': [{'harness': k['harness'], 'bound': props.BOUNDS.get(k['harness'], 'see harness'), 'status': k['status']} for k in kani_runs if not k.get('complete')],
        'functions_under_contract': sorted(set(under_contract)),
        'contracts_assumed_here_proved_elsewhere': sorted(set(assumed)),
        'functions_not_under_contract': cfg.get('not_under_contract', []),
        'rewrites_applied': rewrites,
        'known_findings_reported': known_lines,
        'uncarved_obligations_attempted': uncarved,
        'counterexample_search': search_runs,
        'cfg_gated_sites': [{k2: st[k2] for k2 in ('file', 'line', 'kind', 'fn', 'decided_by')} for st in static_sites],
        'differential_stand_in': differential,
        'thorough_exploration': exploration,
        'generated_glue_verified': glue_info,
        'undecided': undecided,
        'explanation': cfg.get('explanation', ''),
    })
    ev['violations'] = len(violations)
    ev['wall_s'] = round(time.time() - t0, 1)
    os.makedirs(os.path.join(VERIF, 'evidence'), exist_ok=True)
    json.dump(ev, open(os.path.join(VERIF, 'evidence', pid + '.json'), 'w'), indent=1)

    for l in known_lines:
        print(l)
    for r in verus_runs:
        print('verus %-14s %-4s verified=%d errors=%d  %.1fs' % (r['unit'], '+'.join(r['features']) or '', r['verified'], r['errors'], r['wall_s']))
    for c in canaries:
        print('canary %-13s refuted %d/%d  %.1fs' % (c['unit'], c['refuted'], c['expected'], c['wall_s']))
    if static_sites:
        print('cfg-gated sites: %d, frame rule accepts %d' % (len(static_sites), sum(1 for st in static_sites if st['accepted'])))
    if differential:
        print('differential off/on: %s inputs, %s' % (differential['inputs'], 'MISMATCH' if differential['mismatch'] else 'identical outcomes'))
    for x in exploration:
        print('explore %-12s seed=%s %s inputs=%s %.0fs' % (x['group'], x['seed'], 'ok' if x['rc'] == 0 else 'FAILED', x['inputs'], x['wall_s']))
    for b in bounded_runs:
        print('bounded %-12s %s inputs=%s  [%s]' % (b['group'], 'ok' if b['rc'] == 0 else 'FAILED', b['inputs'], b['bound']))
    for k in kani_runs:
        print('kani  %-30s %s checks=%s %s %.0fs' % (k['harness'], k['status'], k.get('checks'), 'complete' if k.get('complete') else 'BOUNDED', k['wall_s']))
    if violations:
        for (name, path, has_input) in violations:
            print('failed obligation: %s' % name)
            print('VIOLATION property=%s replay=%s%s' % (pid, path, '' if has_input else ' no-failing-input-found'))
        return 1
    if undecided:
        for u in undecided:
            print('UNDECIDED: %s' % u[:3000])
        return 2
    print('OK property=%s obligations=%d discharged=%d wall=%.1fs' % (pid, obligations, discharged, ev['wall_s']))
    return 0


def replay(path):
    payload = json.load(open(path))
    print('obligation: %s' % payload.get('obligation'))
    if payload.get('function'):
        print('function:   %s (%s lines %s)' % (payload['function'], payload.get('repo_file'), payload.get('repo_lines')))
    if payload.get('verifier_output'):
        print('--- verifier output ---')
        print(payload['verifier_output'])
    if payload.get('kind') == 'differential':
        b_off = replay_build()
        b_on = replay_build(descriptive=True)
        rc1, out1, err1, w1 = sh([b_off, 'outcome', json.dumps(payload['input'])], timeout=120)
        rc2, out2, err2, w2 = sh([b_on, 'outcome', json.dumps(payload['input'])], timeout=120)
        print('--- replay against the real code, both builds ---')
        print('feature off: %s' % out1.strip())
        print('feature on:  %s' % out2.strip())
        return 1 if out1 != out2 else 0
    if 'input' in payload or payload.get('kind') == 'probe':
        binary = replay_build()
        if payload.get('kind') == 'probe':
            rc, out, err, wall = replay_run(binary, ['probe', payload['probe']])
        elif isinstance(payload.get('input'), dict) and payload['input'].get('group') == 'gluezoo':
            i = payload['input']
            rc, out, err, wall = sh([gluezoo_build(), 'replay', i['type'], str(i['bits'])] + [str(b) for b in i['bytes']], timeout=120)
        else:
            rc, out, err, wall = replay_run(binary, ['replay', json.dumps(payload['input'])])
        print('--- replay against the real code ---')
        print(out)
        print(err[-2000:])
        return rc
    print('no failing input recorded (no-failing-input-found); the failed obligation above is the violation')
    return 1


def main():
    ap = argparse.ArgumentParser()
    ap.add_argument('cmd')
    ap.add_argument('arg', nargs='?')
    ap.add_argument('--tier', default=os.environ.get('VERIF_TIER', 'quick'))
    a = ap.parse_args()
    seed = int(os.environ.get('VERIF_SEED', '1') or 1)
    if a.cmd == 'check':
        sys.exit(check(a.arg, a.tier, seed))
    elif a.cmd == 'replay':
        sys.exit(replay(a.arg))
    elif a.cmd == 'setup':
        # warm the build caches (replay binary, Kani compilation of the real crate); failures here are not fatal
        try:
            replay_build()
        except Undecided as ex:
            print('setup: %s' % ex)
        kani_prepare()
        r = kani_harness('tag_order', 900)
        print('setup: kani warm-up %s' % r['status'])
        sys.exit(0)
    else:
        print('unknown command')
        sys.exit(2)


if __name__ == '__main__':
    main()
