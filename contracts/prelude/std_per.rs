// ===== R1 wrappers: big-endian byte conversion (assume_specification cannot name the anonymous const of the std signature) =====
#[verifier::external_body]
pub fn verif_u64_to_be_bytes(v: u64) -> (r: [u8; 8])
    ensures forall|j: int| 0 <= j < 8 ==> #[trigger] r@[j] == be_byte(v, j)
{ v.to_be_bytes() }

#[verifier::external_body]
pub fn verif_u64_from_be_bytes(b: [u8; 8]) -> (r: u64)
    ensures forall|j: int| 0 <= j < 8 ==> #[trigger] b@[j] == be_byte(r, j)
{ u64::from_be_bytes(b) }

#[verifier::external_body]
pub fn verif_i64_to_be_bytes(v: i64) -> (r: [u8; 8])
    ensures forall|j: int| 0 <= j < 8 ==> #[trigger] r@[j] == be_byte(v as u64, j)
{ v.to_be_bytes() }

#[verifier::external_body]
pub fn verif_i64_from_be_bytes(b: [u8; 8]) -> (r: i64)
    ensures forall|j: int| 0 <= j < 8 ==> #[trigger] b@[j] == be_byte(r as u64, j)
{ i64::from_be_bytes(b) }

// ===== i64 bit-counting functions (trusted: stated in terms of vstd's u64_leading_zeros on the bit pattern) =====
pub assume_specification [i64::is_negative] (v: i64) -> (r: bool)
    ensures r == (v < 0);
pub assume_specification [i64::leading_zeros] (v: i64) -> (r: u32)
    ensures r == vstd::std_specs::bits::u64_leading_zeros(v as u64);
pub assume_specification [i64::leading_ones] (v: i64) -> (r: u32)
    ensures r == vstd::std_specs::bits::u64_leading_zeros(!(v as u64));
