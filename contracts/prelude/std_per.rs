// ===== R1 wrappers: big-endian byte conversion (assume_specification cannot name the anonymous const of the std signature) =====
#[verifier::external_body]
pub fn verif_u64_to_be_bytes(v: u64) -> (r: [u8; 8])
    ensures forall|j: int| 0 <= j < 8 ==> #[trigger] r@[j] == be_byte(v, j)
{ v.to_be_bytes() }

#[verifier::external_body]
pub fn verif_u64_from_be_bytes(b: [u8; 8]) -> (r: u64)
    ensures forall|j: int| 0 <= j < 8 ==> #[trigger] b@[j] == be_byte(r, j)
{ u64::from_be_bytes(b) }

#[verifier::external_body]
pub fn verif_i64_to_be_bytes(v: i64) -> (r: [u8; 8])
    ensures forall|j: int| 0 <= j < 8 ==> #[trigger] r@[j] == be_byte(v as u64, j)
{ v.to_be_bytes() }

#[verifier::external_body]
pub fn verif_i64_from_be_bytes(b: [u8; 8]) -> (r: i64)
    ensures forall|j: int| 0 <= j < 8 ==> #[trigger] b@[j] == be_byte(r as u64, j)
{ i64::from_be_bytes(b) }
