// ===== spec vocabulary: bits (DESIGN.md section 5) =====

/// MSB-first bit `i` of a byte sequence (X.691 numbers bits from the most significant one).
pub open spec fn bit_at(s: Seq<u8>, i: int) -> bool {
    (s[i / 8] & (0x80u8 >> ((i % 8) as u8))) != 0
}

/// all bits of a byte sequence
pub open spec fn bits_of(s: Seq<u8>) -> Seq<bool> {
    Seq::new((s.len() * 8) as nat, |i: int| bit_at(s, i))
}

/// ENV-1 (trusted environment fact): no live allocation / slice has more than 2^56 elements
/// (the address space of every 64-bit target is smaller).  `usize` is 64 bit.
pub open spec fn ALLOC_MAX() -> int { 0x100_0000_0000_0000 }

pub open spec fn env_slice(s: Seq<u8>) -> bool { s.len() <= ALLOC_MAX() }

#[verifier::external_body]
pub proof fn axiom_env_vec(v: &Vec<u8>)
    ensures env_slice(v@)
{ }

#[verifier::external_body]
pub proof fn axiom_env_slice(v: &[u8])
    ensures env_slice(v@)
{ }

/// exactly the n bits [dp, dp+n) of the destination become the bits [sp, sp+n) of the source,
/// every other destination bit is unchanged, the length is unchanged
pub open spec fn copied(d0: Seq<u8>, d1: Seq<u8>, src: Seq<u8>, sp: int, dp: int, n: int) -> bool {
    &&& d1.len() == d0.len()
    &&& forall|j: int| 0 <= j < d0.len() * 8 ==> #[trigger] bit_at(d1, j) ==
          (if dp <= j < dp + n { bit_at(src, sp + (j - dp)) } else { bit_at(d0, j) })
}

/// like `copied`, but the destination may have grown; bits beyond the old end that are not written are zero
pub open spec fn wrote(d0: Seq<u8>, d1: Seq<u8>, src: Seq<u8>, sp: int, dp: int, n: int) -> bool {
    &&& d1.len() >= d0.len()
    &&& forall|j: int| 0 <= j < d1.len() * 8 ==> #[trigger] bit_at(d1, j) ==
          (if dp <= j < dp + n { bit_at(src, sp + (j - dp)) } else if j < d0.len() * 8 { bit_at(d0, j) } else { false })
}

pub proof fn lemma_bit_at_ext(a: Seq<u8>, b: Seq<u8>)
    requires a.len() == b.len(), forall|j: int| 0 <= j < a.len() * 8 ==> bit_at(a, j) == bit_at(b, j)
    ensures a =~= b
{
    assert forall|k: int| 0 <= k < a.len() implies a[k] == b[k] by {
        let x = a[k]; let y = b[k];
        assert(bit_at(a, 8 * k + 0) == bit_at(b, 8 * k + 0));
        assert(bit_at(a, 8 * k + 1) == bit_at(b, 8 * k + 1));
        assert(bit_at(a, 8 * k + 2) == bit_at(b, 8 * k + 2));
        assert(bit_at(a, 8 * k + 3) == bit_at(b, 8 * k + 3));
        assert(bit_at(a, 8 * k + 4) == bit_at(b, 8 * k + 4));
        assert(bit_at(a, 8 * k + 5) == bit_at(b, 8 * k + 5));
        assert(bit_at(a, 8 * k + 6) == bit_at(b, 8 * k + 6));
        assert(bit_at(a, 8 * k + 7) == bit_at(b, 8 * k + 7));
        assert((8 * k + 0) / 8 == k && (8 * k + 1) / 8 == k && (8 * k + 2) / 8 == k && (8 * k + 3) / 8 == k
            && (8 * k + 4) / 8 == k && (8 * k + 5) / 8 == k && (8 * k + 6) / 8 == k && (8 * k + 7) / 8 == k);
        assert((8 * k + 0) % 8 == 0 && (8 * k + 1) % 8 == 1 && (8 * k + 2) % 8 == 2 && (8 * k + 3) % 8 == 3
            && (8 * k + 4) % 8 == 4 && (8 * k + 5) % 8 == 5 && (8 * k + 6) % 8 == 6 && (8 * k + 7) % 8 == 7);
        assert(x == y) by(bit_vector)
            requires
                ((x & (0x80u8 >> 0u8)) != 0) == ((y & (0x80u8 >> 0u8)) != 0),
                ((x & (0x80u8 >> 1u8)) != 0) == ((y & (0x80u8 >> 1u8)) != 0),
                ((x & (0x80u8 >> 2u8)) != 0) == ((y & (0x80u8 >> 2u8)) != 0),
                ((x & (0x80u8 >> 3u8)) != 0) == ((y & (0x80u8 >> 3u8)) != 0),
                ((x & (0x80u8 >> 4u8)) != 0) == ((y & (0x80u8 >> 4u8)) != 0),
                ((x & (0x80u8 >> 5u8)) != 0) == ((y & (0x80u8 >> 5u8)) != 0),
                ((x & (0x80u8 >> 6u8)) != 0) == ((y & (0x80u8 >> 6u8)) != 0),
                ((x & (0x80u8 >> 7u8)) != 0) == ((y & (0x80u8 >> 7u8)) != 0);
    }
}

/// set / clear / test of bit k (MSB-first numbering) seen at bit j
pub proof fn lemma_set_bit(b: u8, k: u8, j: u8)
    requires k < 8, j < 8
    ensures
        ((b | (0x01u8 << (7 - k) as u8)) & (0x80u8 >> j) != 0) == (if j == k { true } else { b & (0x80u8 >> j) != 0 }),
        ((b & !(0x01u8 << (7 - k) as u8)) & (0x80u8 >> j) != 0) == (if j == k { false } else { b & (0x80u8 >> j) != 0 }),
        (b & (0x01u8 << (7 - k) as u8) > 0) == (b & (0x80u8 >> k) != 0),
        ((b | (0x80u8 >> k)) & (0x80u8 >> j) != 0) == (if j == k { true } else { b & (0x80u8 >> j) != 0 }),
        ((b & !(0x80u8 >> k)) & (0x80u8 >> j) != 0) == (if j == k { false } else { b & (0x80u8 >> j) != 0 }),
{
    assert(((b | (0x01u8 << (7 - k) as u8)) & (0x80u8 >> j) != 0) == (if j == k { true } else { b & (0x80u8 >> j) != 0 })) by(bit_vector)
        requires k < 8, j < 8;
    assert(((b & !(0x01u8 << (7 - k) as u8)) & (0x80u8 >> j) != 0) == (if j == k { false } else { b & (0x80u8 >> j) != 0 })) by(bit_vector)
        requires k < 8, j < 8;
    assert((b & (0x01u8 << (7 - k) as u8) > 0) == (b & (0x80u8 >> k) != 0)) by(bit_vector)
        requires k < 8;
    assert(((b | (0x80u8 >> k)) & (0x80u8 >> j) != 0) == (if j == k { true } else { b & (0x80u8 >> j) != 0 })) by(bit_vector)
        requires k < 8, j < 8;
    assert(((b & !(0x80u8 >> k)) & (0x80u8 >> j) != 0) == (if j == k { false } else { b & (0x80u8 >> j) != 0 })) by(bit_vector)
        requires k < 8, j < 8;
}

/// left half of an unaligned byte store: keep the o leading bits of x, fill the rest from s
pub proof fn lemma_left(x: u8, s: u8, o: u8, j: u8)
    requires 1 <= o < 8, j < 8
    ensures
        (((x & (0xFFu8 << ((8 - o) as u8))) | (s >> o)) & (0x80u8 >> j) != 0)
            == (if j < o { x & (0x80u8 >> j) != 0 } else { s & (0x80u8 >> ((j - o) as u8)) != 0 }),
{
    assert((((x & (0xFFu8 << ((8 - o) as u8))) | (s >> o)) & (0x80u8 >> j) != 0)
            == (if j < o { x & (0x80u8 >> j) != 0 } else { s & (0x80u8 >> ((j - o) as u8)) != 0 })) by(bit_vector)
        requires 1 <= o < 8, j < 8;
}

/// right half of an unaligned byte store that preserves the trailing bits of x
pub proof fn lemma_right_keep(x: u8, s: u8, o: u8, j: u8)
    requires 1 <= o < 8, j < 8
    ensures
        (((x & (0xFFu8 >> o)) | (s << ((8 - o) as u8))) & (0x80u8 >> j) != 0)
            == (if j < o { s & (0x80u8 >> ((8 - o + j) as u8)) != 0 } else { x & (0x80u8 >> j) != 0 }),
{
    assert((((x & (0xFFu8 >> o)) | (s << ((8 - o) as u8))) & (0x80u8 >> j) != 0)
            == (if j < o { s & (0x80u8 >> ((8 - o + j) as u8)) != 0 } else { x & (0x80u8 >> j) != 0 })) by(bit_vector)
        requires 1 <= o < 8, j < 8;
}

/// right half of an unaligned byte store as plain assignment (`dst = s << (8-o)`)
pub proof fn lemma_right_plain(s: u8, o: u8, j: u8)
    requires 1 <= o < 8, j < 8
    ensures
        ((s << ((8 - o) as u8)) & (0x80u8 >> j) != 0)
            == (if j < o { s & (0x80u8 >> ((8 - o + j) as u8)) != 0 } else { false }),
{
    assert(((s << ((8 - o) as u8)) & (0x80u8 >> j) != 0)
            == (if j < o { s & (0x80u8 >> ((8 - o + j) as u8)) != 0 } else { false })) by(bit_vector)
        requires 1 <= o < 8, j < 8;
}

pub proof fn lemma_copied_compose(d0: Seq<u8>, d1: Seq<u8>, d2: Seq<u8>, src: Seq<u8>, sp: int, dp: int, a: int, b: int)
    requires a >= 0, b >= 0, copied(d0, d1, src, sp, dp, a), copied(d1, d2, src, sp + a, dp + a, b)
    ensures copied(d0, d2, src, sp, dp, a + b)
{
    assert forall|j: int| 0 <= j < d0.len() * 8 implies #[trigger] bit_at(d2, j) ==
          (if dp <= j < dp + (a + b) { bit_at(src, sp + (j - dp)) } else { bit_at(d0, j) }) by {
        assert(bit_at(d2, j) == (if dp + a <= j < dp + a + b { bit_at(src, sp + a + (j - (dp + a))) } else { bit_at(d1, j) }));
        assert(bit_at(d1, j) == (if dp <= j < dp + a { bit_at(src, sp + (j - dp)) } else { bit_at(d0, j) }));
    }
}

pub proof fn lemma_copied_zero(d0: Seq<u8>, src: Seq<u8>, sp: int, dp: int)
    ensures copied(d0, d0, src, sp, dp, 0)
{ }

/// `copied` on a destination of unchanged length is `wrote`
pub proof fn lemma_copied_wrote(d0: Seq<u8>, d1: Seq<u8>, src: Seq<u8>, sp: int, dp: int, n: int)
    requires copied(d0, d1, src, sp, dp, n)
    ensures wrote(d0, d1, src, sp, dp, n)
{ }

/// single-bit form of `wrote`
pub open spec fn wrote_bit(d0: Seq<u8>, d1: Seq<u8>, p: int, bit: bool) -> bool {
    &&& d1.len() >= d0.len()
    &&& forall|j: int| 0 <= j < d1.len() * 8 ==> #[trigger] bit_at(d1, j) ==
          (if j == p { bit } else if j < d0.len() * 8 { bit_at(d0, j) } else { false })
}

/// b1 is b0 followed by zero bytes
pub open spec fn grown(b0: Seq<u8>, b1: Seq<u8>) -> bool {
    &&& b1.len() >= b0.len()
    &&& forall|k: int| 0 <= k < b0.len() ==> b1[k] == b0[k]
    &&& forall|k: int| b0.len() <= k < b1.len() ==> b1[k] == 0u8
}

pub proof fn lemma_zero_byte_bits(k: u8)
    requires k < 8
    ensures (0u8 & (0x80u8 >> k)) == 0
{
    assert((0u8 & (0x80u8 >> k)) == 0) by(bit_vector) requires k < 8;
}

pub proof fn lemma_grown_bits(b0: Seq<u8>, b1: Seq<u8>)
    requires grown(b0, b1)
    ensures forall|j: int| 0 <= j < b1.len() * 8 ==> #[trigger] bit_at(b1, j) == (if j < b0.len() * 8 { bit_at(b0, j) } else { false })
{
    assert forall|j: int| 0 <= j < b1.len() * 8 implies #[trigger] bit_at(b1, j) == (if j < b0.len() * 8 { bit_at(b0, j) } else { false }) by {
        if j >= b0.len() * 8 {
            lemma_zero_byte_bits((j % 8) as u8);
        }
    }
}

/// growing first and writing afterwards is a `wrote` relative to the buffer before growing
pub proof fn lemma_wrote_after_grow(b0: Seq<u8>, b1: Seq<u8>, src: Seq<u8>, sp: int, dp: int, n: int)
    requires grown(b0, b1)
    ensures
        forall|b2: Seq<u8>| #[trigger] wrote(b1, b2, src, sp, dp, n) && b2.len() == b1.len() ==> wrote(b0, b2, src, sp, dp, n),
        forall|b2: Seq<u8>, bit: bool| #[trigger] wrote_bit(b1, b2, dp, bit) && b2.len() == b1.len() ==> wrote_bit(b0, b2, dp, bit),
{
    lemma_grown_bits(b0, b1);
    assert forall|b2: Seq<u8>| #[trigger] wrote(b1, b2, src, sp, dp, n) && b2.len() == b1.len() implies wrote(b0, b2, src, sp, dp, n) by {
        assert forall|j: int| 0 <= j < b2.len() * 8 implies #[trigger] bit_at(b2, j) ==
            (if dp <= j < dp + n { bit_at(src, sp + (j - dp)) } else if j < b0.len() * 8 { bit_at(b0, j) } else { false }) by {
            assert(bit_at(b1, j) == (if j < b0.len() * 8 { bit_at(b0, j) } else { false }));
        }
    }
    assert forall|b2: Seq<u8>, bit: bool| #[trigger] wrote_bit(b1, b2, dp, bit) && b2.len() == b1.len() implies wrote_bit(b0, b2, dp, bit) by {
        assert forall|j: int| 0 <= j < b2.len() * 8 implies #[trigger] bit_at(b2, j) ==
            (if j == dp { bit } else if j < b0.len() * 8 { bit_at(b0, j) } else { false }) by {
            assert(bit_at(b1, j) == (if j < b0.len() * 8 { bit_at(b0, j) } else { false }));
        }
    }
}

/// "exactly ceil(wp/8) bytes, padding bits zero"
pub open spec fn tight_seq(b: Seq<u8>, wp: int) -> bool {
    &&& b.len() == (wp + 7) / 8
    &&& forall|j: int| wp <= j < b.len() * 8 ==> !#[trigger] bit_at(b, j)
}

pub proof fn lemma_tight_after_write(b0: Seq<u8>, wp: int, src: Seq<u8>, sp: int, n: int)
    requires tight_seq(b0, wp), n >= 0, wp >= 0
    ensures
        forall|b2: Seq<u8>| #[trigger] wrote(b0, b2, src, sp, wp, n) && b2.len() == max_int(b0.len() as int, (wp + n + 7) / 8) ==> tight_seq(b2, wp + n),
        forall|b2: Seq<u8>, bit: bool| #[trigger] wrote_bit(b0, b2, wp, bit) && b2.len() == max_int(b0.len() as int, (wp + 1 + 7) / 8) ==> tight_seq(b2, wp + 1),
{
    assert forall|b2: Seq<u8>| #[trigger] wrote(b0, b2, src, sp, wp, n) && b2.len() == max_int(b0.len() as int, (wp + n + 7) / 8) implies tight_seq(b2, wp + n) by {
        assert forall|j: int| wp + n <= j < b2.len() * 8 implies !#[trigger] bit_at(b2, j) by {
            if j < b0.len() * 8 { assert(!bit_at(b0, j)); }
        }
    }
    assert forall|b2: Seq<u8>, bit: bool| #[trigger] wrote_bit(b0, b2, wp, bit) && b2.len() == max_int(b0.len() as int, (wp + 1 + 7) / 8) implies tight_seq(b2, wp + 1) by {
        assert forall|j: int| wp + 1 <= j < b2.len() * 8 implies !#[trigger] bit_at(b2, j) by {
            if j < b0.len() * 8 { assert(!bit_at(b0, j)); }
        }
    }
}

// component forms of the trait-level well-formedness predicates (trait default spec fns would be
// overridable and therefore opaque in generic code; the sidecar macros $r_wf / $w_wf expand to these)
pub open spec fn r_wf_c(bytes: Seq<u8>, pos: int, limit: int) -> bool {
    0 <= pos <= limit <= bytes.len() * 8 && env_slice(bytes)
}
pub open spec fn w_wf_c(bytes: Seq<u8>, pos: int) -> bool {
    0 <= pos <= bytes.len() * 8 && env_slice(bytes)
}
pub open spec fn w_len_after_c(growable: bool, len: int, pos: int, n: int) -> int {
    if growable { max_int(len, (pos + n + 7) / 8) } else { len }
}
pub open spec fn w_room_c(growable: bool, len: int, pos: int, n: int) -> bool {
    growable || pos + n <= len * 8
}

/// bits of a byte sub-range are the corresponding bit sub-range
pub proof fn lemma_bits_of_subrange(bytes: Seq<u8>, a: int, b: int)
    requires 0 <= a <= b <= bytes.len()
    ensures bits_of(bytes.subrange(a, b)) =~= bits_of(bytes).subrange(8 * a, 8 * b)
{
    let sub = bytes.subrange(a, b);
    assert forall|i: int| 0 <= i < (b - a) * 8 implies bits_of(sub)[i] == bits_of(bytes).subrange(8 * a, 8 * b)[i] by {
        assert((8 * a + i) / 8 == a + i / 8);
        assert((8 * a + i) % 8 == i % 8);
        assert(sub[i / 8] == bytes[a + i / 8]);
    }
}

/// growing by zero bytes changes nothing
pub proof fn lemma_grown_same_len(b0: Seq<u8>, b1: Seq<u8>)
    requires grown(b0, b1)
    ensures b1.len() == b0.len() ==> b1 =~= b0
{ }
