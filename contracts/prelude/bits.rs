// ===== spec vocabulary: bits (DESIGN.md section 5) =====

/// MSB-first bit `i` of a byte sequence (X.691 numbers bits from the most significant one).
pub open spec fn bit_at(s: Seq<u8>, i: int) -> bool {
    (s[i / 8] & (0x80u8 >> ((i % 8) as u8))) != 0
}

/// all bits of a byte sequence
pub open spec fn bits_of(s: Seq<u8>) -> Seq<bool> {
    Seq::new((s.len() * 8) as nat, |i: int| bit_at(s, i))
}

/// ENV-1 (trusted environment fact): no live allocation / slice has more than 2^56 elements
/// (the address space of every 64-bit target is smaller).  `usize` is 64 bit.
pub open spec fn ALLOC_MAX() -> int { 0x100_0000_0000_0000 }

pub open spec fn env_slice(s: Seq<u8>) -> bool { s.len() <= ALLOC_MAX() }

#[verifier::external_body]
pub proof fn axiom_env_vec(v: &Vec<u8>)
    ensures env_slice(v@)
{ }

#[verifier::external_body]
pub proof fn axiom_env_slice(v: &[u8])
    ensures env_slice(v@)
{ }

/// exactly the n bits [dp, dp+n) of the destination become the bits [sp, sp+n) of the source,
/// every other destination bit is unchanged, the length is unchanged
pub open spec fn copied(d0: Seq<u8>, d1: Seq<u8>, src: Seq<u8>, sp: int, dp: int, n: int) -> bool {
    &&& d1.len() == d0.len()
    &&& forall|j: int| 0 <= j < d0.len() * 8 ==> #[trigger] bit_at(d1, j) ==
          (if dp <= j < dp + n { bit_at(src, sp + (j - dp)) } else { bit_at(d0, j) })
}

/// like `copied`, but the destination may have grown; bits beyond the old end that are not written are zero
pub open spec fn wrote(d0: Seq<u8>, d1: Seq<u8>, src: Seq<u8>, sp: int, dp: int, n: int) -> bool {
    &&& d1.len() >= d0.len()
    &&& forall|j: int| 0 <= j < d1.len() * 8 ==> #[trigger] bit_at(d1, j) ==
          (if dp <= j < dp + n { bit_at(src, sp + (j - dp)) } else if j < d0.len() * 8 { bit_at(d0, j) } else { false })
}

pub proof fn lemma_bit_at_ext(a: Seq<u8>, b: Seq<u8>)
    requires a.len() == b.len(), forall|j: int| 0 <= j < a.len() * 8 ==> bit_at(a, j) == bit_at(b, j)
    ensures a =~= b
{
    assert forall|k: int| 0 <= k < a.len() implies a[k] == b[k] by {
        let x = a[k]; let y = b[k];
        assert(bit_at(a, 8 * k + 0) == bit_at(b, 8 * k + 0));
        assert(bit_at(a, 8 * k + 1) == bit_at(b, 8 * k + 1));
        assert(bit_at(a, 8 * k + 2) == bit_at(b, 8 * k + 2));
        assert(bit_at(a, 8 * k + 3) == bit_at(b, 8 * k + 3));
        assert(bit_at(a, 8 * k + 4) == bit_at(b, 8 * k + 4));
        assert(bit_at(a, 8 * k + 5) == bit_at(b, 8 * k + 5));
        assert(bit_at(a, 8 * k + 6) == bit_at(b, 8 * k + 6));
        assert(bit_at(a, 8 * k + 7) == bit_at(b, 8 * k + 7));
        assert((8 * k + 0) / 8 == k && (8 * k + 1) / 8 == k && (8 * k + 2) / 8 == k && (8 * k + 3) / 8 == k
            && (8 * k + 4) / 8 == k && (8 * k + 5) / 8 == k && (8 * k + 6) / 8 == k && (8 * k + 7) / 8 == k);
        assert((8 * k + 0) % 8 == 0 && (8 * k + 1) % 8 == 1 && (8 * k + 2) % 8 == 2 && (8 * k + 3) % 8 == 3
            && (8 * k + 4) % 8 == 4 && (8 * k + 5) % 8 == 5 && (8 * k + 6) % 8 == 6 && (8 * k + 7) % 8 == 7);
        assert(x == y) by(bit_vector)
            requires
                ((x & (0x80u8 >> 0u8)) != 0) == ((y & (0x80u8 >> 0u8)) != 0),
                ((x & (0x80u8 >> 1u8)) != 0) == ((y & (0x80u8 >> 1u8)) != 0),
                ((x & (0x80u8 >> 2u8)) != 0) == ((y & (0x80u8 >> 2u8)) != 0),
                ((x & (0x80u8 >> 3u8)) != 0) == ((y & (0x80u8 >> 3u8)) != 0),
                ((x & (0x80u8 >> 4u8)) != 0) == ((y & (0x80u8 >> 4u8)) != 0),
                ((x & (0x80u8 >> 5u8)) != 0) == ((y & (0x80u8 >> 5u8)) != 0),
                ((x & (0x80u8 >> 6u8)) != 0) == ((y & (0x80u8 >> 6u8)) != 0),
                ((x & (0x80u8 >> 7u8)) != 0) == ((y & (0x80u8 >> 7u8)) != 0);
    }
}

/// set / clear / test of bit k (MSB-first numbering) seen at bit j
pub proof fn lemma_set_bit(b: u8, k: u8, j: u8)
    requires k < 8, j < 8
    ensures
        ((b | (0x01u8 << (7 - k) as u8)) & (0x80u8 >> j) != 0) == (if j == k { true } else { b & (0x80u8 >> j) != 0 }),
        ((b & !(0x01u8 << (7 - k) as u8)) & (0x80u8 >> j) != 0) == (if j == k { false } else { b & (0x80u8 >> j) != 0 }),
        (b & (0x01u8 << (7 - k) as u8) > 0) == (b & (0x80u8 >> k) != 0),
        ((b | (0x80u8 >> k)) & (0x80u8 >> j) != 0) == (if j == k { true } else { b & (0x80u8 >> j) != 0 }),
        ((b & !(0x80u8 >> k)) & (0x80u8 >> j) != 0) == (if j == k { false } else { b & (0x80u8 >> j) != 0 }),
{
    assert(((b | (0x01u8 << (7 - k) as u8)) & (0x80u8 >> j) != 0) == (if j == k { true } else { b & (0x80u8 >> j) != 0 })) by(bit_vector)
        requires k < 8, j < 8;
    assert(((b & !(0x01u8 << (7 - k) as u8)) & (0x80u8 >> j) != 0) == (if j == k { false } else { b & (0x80u8 >> j) != 0 })) by(bit_vector)
        requires k < 8, j < 8;
    assert((b & (0x01u8 << (7 - k) as u8) > 0) == (b & (0x80u8 >> k) != 0)) by(bit_vector)
        requires k < 8;
    assert(((b | (0x80u8 >> k)) & (0x80u8 >> j) != 0) == (if j == k { true } else { b & (0x80u8 >> j) != 0 })) by(bit_vector)
        requires k < 8, j < 8;
    assert(((b & !(0x80u8 >> k)) & (0x80u8 >> j) != 0) == (if j == k { false } else { b & (0x80u8 >> j) != 0 })) by(bit_vector)
        requires k < 8, j < 8;
}

/// left half of an unaligned byte store: keep the o leading bits of x, fill the rest from s
pub proof fn lemma_left(x: u8, s: u8, o: u8, j: u8)
    requires 1 <= o < 8, j < 8
    ensures
        (((x & (0xFFu8 << ((8 - o) as u8))) | (s >> o)) & (0x80u8 >> j) != 0)
            == (if j < o { x & (0x80u8 >> j) != 0 } else { s & (0x80u8 >> ((j - o) as u8)) != 0 }),
{
    assert((((x & (0xFFu8 << ((8 - o) as u8))) | (s >> o)) & (0x80u8 >> j) != 0)
            == (if j < o { x & (0x80u8 >> j) != 0 } else { s & (0x80u8 >> ((j - o) as u8)) != 0 })) by(bit_vector)
        requires 1 <= o < 8, j < 8;
}

/// right half of an unaligned byte store that preserves the trailing bits of x
pub proof fn lemma_right_keep(x: u8, s: u8, o: u8, j: u8)
    requires 1 <= o < 8, j < 8
    ensures
        (((x & (0xFFu8 >> o)) | (s << ((8 - o) as u8))) & (0x80u8 >> j) != 0)
            == (if j < o { s & (0x80u8 >> ((8 - o + j) as u8)) != 0 } else { x & (0x80u8 >> j) != 0 }),
{
    assert((((x & (0xFFu8 >> o)) | (s << ((8 - o) as u8))) & (0x80u8 >> j) != 0)
            == (if j < o { s & (0x80u8 >> ((8 - o + j) as u8)) != 0 } else { x & (0x80u8 >> j) != 0 })) by(bit_vector)
        requires 1 <= o < 8, j < 8;
}

/// right half of an unaligned byte store as plain assignment (`dst = s << (8-o)`)
pub proof fn lemma_right_plain(s: u8, o: u8, j: u8)
    requires 1 <= o < 8, j < 8
    ensures
        ((s << ((8 - o) as u8)) & (0x80u8 >> j) != 0)
            == (if j < o { s & (0x80u8 >> ((8 - o + j) as u8)) != 0 } else { false }),
{
    assert(((s << ((8 - o) as u8)) & (0x80u8 >> j) != 0)
            == (if j < o { s & (0x80u8 >> ((8 - o + j) as u8)) != 0 } else { false })) by(bit_vector)
        requires 1 <= o < 8, j < 8;
}

pub proof fn lemma_copied_compose(d0: Seq<u8>, d1: Seq<u8>, d2: Seq<u8>, src: Seq<u8>, sp: int, dp: int, a: int, b: int)
    requires a >= 0, b >= 0, copied(d0, d1, src, sp, dp, a), copied(d1, d2, src, sp + a, dp + a, b)
    ensures copied(d0, d2, src, sp, dp, a + b)
{
    assert forall|j: int| 0 <= j < d0.len() * 8 implies #[trigger] bit_at(d2, j) ==
          (if dp <= j < dp + (a + b) { bit_at(src, sp + (j - dp)) } else { bit_at(d0, j) }) by {
        assert(bit_at(d2, j) == (if dp + a <= j < dp + a + b { bit_at(src, sp + a + (j - (dp + a))) } else { bit_at(d1, j) }));
        assert(bit_at(d1, j) == (if dp <= j < dp + a { bit_at(src, sp + (j - dp)) } else { bit_at(d0, j) }));
    }
}

pub proof fn lemma_copied_zero(d0: Seq<u8>, src: Seq<u8>, sp: int, dp: int)
    ensures copied(d0, d0, src, sp, dp, 0)
{ }

/// `copied` on a destination of unchanged length is `wrote`
pub proof fn lemma_copied_wrote(d0: Seq<u8>, d1: Seq<u8>, src: Seq<u8>, sp: int, dp: int, n: int)
    requires copied(d0, d1, src, sp, dp, n)
    ensures wrote(d0, d1, src, sp, dp, n)
{ }
