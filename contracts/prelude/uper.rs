// ===== unit uper: trusted wrappers for std functions without a vstd specification =====

/// R22: `C::DEFAULT_VALUE.to_owned()`
#[verifier::external_body]
pub fn verif_default_value<C: default::Constraint>() -> C::Owned { C::DEFAULT_VALUE.to_owned() }

/// Result::and_then (std definition)
pub assume_specification<T, E, U, F: FnOnce(T) -> Result<U, E>>[ Result::<T, E>::and_then ](r: Result<T, E>, f: F) -> (o: Result<U, E>)
    requires r matches Ok(t) ==> f.requires((t,)),
    ensures match r { Ok(t) => f.ensures((t,), o), Err(e) => o == Err::<U, E>(e) };

/// R3: `String::from_utf8(v).map_err(|e| ErrorKind::FromUtf8Error(e).into())` (UTF-8 validation is std code; no contract depends on its outcome)
#[verifier::external_body]
pub fn verif_string_from_utf8(v: Vec<u8>) -> (r: Result<String, Error>) { unimplemented!() }

/// R24: `C::DEFAULT_VALUE.ne(value)`
#[verifier::external_body]
pub fn verif_default_ne<C: default::Constraint>(value: &C::Owned) -> bool { C::DEFAULT_VALUE.ne(value) }

/// R4: `s.chars().count()` (number of Unicode scalar values; std iterator code)
pub uninterp spec fn str_char_count(s: &str) -> nat;
#[verifier::external_body]
pub fn verif_str_char_count(s: &str) -> (n: usize)
    ensures n == str_char_count(s)
{ s.chars().count() }

/// stand-in for the macro-generated `impl Number for u64` (impl_number!): needed only because `u64` is the default type
/// argument of `numbers::Integer`; the methods of unit uper are verified for an arbitrary `T: Number`
impl numbers::Number for u64 {
    open spec fn n_i64(self) -> i64 { self as i64 }
    open spec fn n_from(v: i64) -> u64 { v as u64 }
    #[verifier::external_body]
    fn to_i64(self) -> (r: i64) { self as i64 }
    #[verifier::external_body]
    fn from_i64(value: i64) -> (r: Self) { value as u64 }
}
