// ===== unit uper: trusted wrappers for std functions without a vstd specification =====

/// R22: `C::DEFAULT_VALUE.to_owned()`: the owned DEFAULT value of the component (a constant of the constraint)
pub uninterp spec fn default_owned<C: default::Constraint>() -> C::Owned;
#[verifier::external_body]
pub fn verif_default_value<C: default::Constraint>() -> (r: C::Owned)
    ensures r == default_owned::<C>()
{ C::DEFAULT_VALUE.to_owned() }

/// Result::and_then (std definition)
pub assume_specification<T, E, U, F: FnOnce(T) -> Result<U, E>>[ Result::<T, E>::and_then ](r: Result<T, E>, f: F) -> (o: Result<U, E>)
    requires r matches Ok(t) ==> f.requires((t,)),
    ensures match r { Ok(t) => f.ensures((t,), o), Err(e) => o == Err::<U, E>(e) };

/// R3: `String::from_utf8(v).map_err(|e| ErrorKind::FromUtf8Error(e).into())` (UTF-8 validation is std code; no contract depends on its outcome)
#[verifier::external_body]
pub fn verif_string_from_utf8(v: Vec<u8>) -> (r: Result<String, Error>) { unimplemented!() }

/// R24: `C::DEFAULT_VALUE.ne(value)`
pub uninterp spec fn default_ne<C: default::Constraint>(value: C::Owned) -> bool;
#[verifier::external_body]
pub fn verif_default_ne<C: default::Constraint>(value: &C::Owned) -> (r: bool)
    ensures r == default_ne::<C>(*value)
{ C::DEFAULT_VALUE.ne(value) }

/// R4: `s.chars().count()` (number of Unicode scalar values; std iterator code)
pub uninterp spec fn str_char_count(s: &str) -> nat;
#[verifier::external_body]
pub fn verif_str_char_count(s: &str) -> (n: usize)
    ensures n == str_char_count(s)
{ s.chars().count() }


// ===== compositional encoding of SEQUENCE OF / SET OF (X.691 20) =====

/// the encodings of the elements, one after the other
pub open spec fn enc_all<T: WritableType>(s: Seq<T::Type>) -> Seq<bool>
    decreases s.len()
{
    if s.len() == 0 { Seq::<bool>::empty() } else { enc_all::<T>(s.drop_last()) + T::x_enc(s.last()) }
}
pub open spec fn all_ok<T: WritableType>(s: Seq<T::Type>) -> bool {
    forall|i: int| 0 <= i < s.len() ==> #[trigger] T::x_ok(s[i])
}
/// 20.6 / 20.5: the length part of a SEQUENCE OF with n elements
pub open spec fn seqof_len(min: Option<u64>, max: Option<u64>, ext: bool, n: u64) -> Seq<bool> {
    let out = n < len_lb(min) || n > (match max { Some(x) => x, None => 0x7fff_ffff_ffff_ffffu64 });
    (if ext { seq![out] } else { Seq::<bool>::empty() }) + (if out { x691_len_general(n) } else { x691_len(min, max, n) })
}
/// described by seqof_len: below the fragmentation threshold (known findings KF-C01-*) and inside the profile
pub open spec fn seqof_ok(min: Option<u64>, max: Option<u64>, ext: bool, n: u64) -> bool {
    let out = n < len_lb(min) || n > (match max { Some(x) => x, None => 0x7fff_ffff_ffff_ffffu64 });
    n < 16384 && (out || octets_in_profile(min, max))
}

/// 13.2.2 decoder: a non-extensible INTEGER with bounds
pub open spec fn dec_integer_c<T: numbers::Number>(bytes: Seq<u8>, pos: int, limit: int, min: Option<i64>, max: Option<i64>) -> Option<(T, int)> {
    let lo = match min { Some(x) => x, None => 0i64 };
    let hi = match max { Some(x) => x, None => i64::MAX };
    match dec_cwn(bytes, pos, limit, (hi - lo) as u64) { Some((v, p)) => Some((T::n_from((lo + v) as i64), p)), None => None }
}

// ===== compositional round trip (C01) over the descriptor-level specs x_enc / x_dec =====

/// `dec` inverts `enc` on the value v, relative to an arbitrary prefix and tail
pub open spec fn rt_at<V>(enc: spec_fn(V) -> Seq<bool>, dec: spec_fn(Seq<u8>, int, int) -> Option<(V, int)>, v: V) -> bool {
    forall|bytes: Seq<u8>, pos: int, limit: int| 0 <= pos && starts_with(bytes, pos, enc(v)) && pos + enc(v).len() <= limit
        ==> #[trigger] dec(bytes, pos, limit) == Some((v, pos + enc(v).len()))
}

/// BOOLEAN (x_enc / x_dec of descriptor Boolean<C>)
pub proof fn lemma_rt_desc_boolean(v: bool)
    ensures rt_at(|b: bool| seq![b], |bytes: Seq<u8>, pos: int, limit: int| if pos < limit { Some((bit_at(bytes, pos), pos + 1)) } else { None }, v)
{
    let bdec = |bytes: Seq<u8>, pos: int, limit: int| if pos < limit { Some((bit_at(bytes, pos), pos + 1)) } else { None::<(bool, int)> };
    assert forall|bytes: Seq<u8>, pos: int, limit: int| 0 <= pos && starts_with(bytes, pos, seq![v]) && pos + seq![v].len() <= limit
        implies #[trigger] bdec(bytes, pos, limit) == Some((v, pos + seq![v].len())) by {
        assert(bit_at(bytes, pos + 0) == seq![v][0]);
    }
}

/// OPTIONAL on its own (x_enc / x_dec of `impl for Option<T>`), for ANY element codec that round trips
pub proof fn lemma_rt_desc_option<V>(enc: spec_fn(V) -> Seq<bool>, dec: spec_fn(Seq<u8>, int, int) -> Option<(V, int)>, v: Option<V>)
    requires v matches Some(x) ==> rt_at(enc, dec, x)
    ensures rt_at(
        |o: Option<V>| match o { Some(x) => seq![true] + enc(x), None => seq![false] },
        |bytes: Seq<u8>, pos: int, limit: int| if pos >= limit { None } else if bit_at(bytes, pos) {
            match dec(bytes, pos + 1, limit) { Some((x, p)) => Some((Some(x), p)), None => None } } else { Some((None::<V>, pos + 1)) },
        v)
{
    let oenc = |o: Option<V>| match o { Some(x) => seq![true] + enc(x), None => seq![false] };
    let odec = |bytes: Seq<u8>, pos: int, limit: int| if pos >= limit { None } else if bit_at(bytes, pos) {
            match dec(bytes, pos + 1, limit) { Some((x, p)) => Some((Some(x), p)), None => None } } else { Some((None::<V>, pos + 1)) };
    assert forall|bytes: Seq<u8>, pos: int, limit: int| 0 <= pos && starts_with(bytes, pos, oenc(v)) && pos + oenc(v).len() <= limit
        implies #[trigger] odec(bytes, pos, limit) == Some((v, pos + oenc(v).len())) by {
        match v {
            Some(x) => {
                lemma_starts_with_split(bytes, pos, seq![true], enc(x));
                assert(bit_at(bytes, pos + 0) == seq![true][0]);
                assert(starts_with(bytes, pos + 1, enc(x)));
            }
            None => { assert(bit_at(bytes, pos + 0) == seq![false][0]); }
        }
    }
}

/// DEFAULT on its own (x_enc / x_dec of `impl for DefaultValue<T, C>`), for ANY element codec that round trips on the values that are
/// transmitted, given the law of the generated constant: a value that does not differ from the DEFAULT (`ne` false) IS the owned default
pub proof fn lemma_rt_desc_default<V>(enc: spec_fn(V) -> Seq<bool>, dec: spec_fn(Seq<u8>, int, int) -> Option<(V, int)>, ne: spec_fn(V) -> bool, dflt: V, v: V)
    requires ne(v) ==> rt_at(enc, dec, v), !ne(v) ==> v == dflt
    ensures rt_at(
        |x: V| if ne(x) { seq![true] + enc(x) } else { seq![false] },
        |bytes: Seq<u8>, pos: int, limit: int| if pos >= limit { None } else if bit_at(bytes, pos) { dec(bytes, pos + 1, limit) } else { Some((dflt, pos + 1)) },
        v)
{
    let denc = |x: V| if ne(x) { seq![true] + enc(x) } else { seq![false] };
    let ddec = |bytes: Seq<u8>, pos: int, limit: int| if pos >= limit { None } else if bit_at(bytes, pos) { dec(bytes, pos + 1, limit) } else { Some((dflt, pos + 1)) };
    assert forall|bytes: Seq<u8>, pos: int, limit: int| 0 <= pos && starts_with(bytes, pos, denc(v)) && pos + denc(v).len() <= limit
        implies #[trigger] ddec(bytes, pos, limit) == Some((v, pos + denc(v).len())) by {
        if ne(v) {
            lemma_starts_with_split(bytes, pos, seq![true], enc(v));
            assert(bit_at(bytes, pos + 0) == seq![true][0]);
            assert(starts_with(bytes, pos + 1, enc(v)));
        } else {
            assert(bit_at(bytes, pos + 0) == seq![false][0]);
        }
    }
}

/// ENUMERATED (x_enc / x_dec of descriptor Enumerated<C>) given the law of the generated type: e_from(e_index(v)) == Some(v)
pub proof fn lemma_rt_desc_enumerated<V>(e_index: spec_fn(V) -> u64, e_from: spec_fn(u64) -> Option<V>, std_variants: u64, extensible: bool, v: V)
    requires e_from(e_index(v)) == Some(v), std_variants >= 1, extensible || e_index(v) < std_variants
    ensures rt_at(
        |x: V| x691_index(std_variants, extensible, e_index(x)),
        |bytes: Seq<u8>, pos: int, limit: int| match dec_index(bytes, pos, limit, std_variants, extensible) {
            Some((i, p)) => (match e_from(i) { Some(x) => Some((x, p)), None => None }), None => None },
        v)
{
    let enc = |x: V| x691_index(std_variants, extensible, e_index(x));
    let edec = |bytes: Seq<u8>, pos: int, limit: int| match dec_index(bytes, pos, limit, std_variants, extensible) {
            Some((i, p)) => (match e_from(i) { Some(x) => Some((x, p)), None => None }), None => None::<(V, int)> };
    assert forall|bytes: Seq<u8>, pos: int, limit: int| 0 <= pos && starts_with(bytes, pos, enc(v)) && pos + enc(v).len() <= limit
        implies #[trigger] edec(bytes, pos, limit) == Some((v, pos + enc(v).len())) by {
        lemma_rt_index(bytes, pos, limit, std_variants, extensible, e_index(v));
    }
}

/// INTEGER with bounds, not extensible (x_enc / x_dec of descriptor Integer<T, C>) given the law of the Number impl on the range: n_from(n_i64(v)) == v
pub proof fn lemma_rt_desc_integer<V>(n_i64: spec_fn(V) -> i64, n_from: spec_fn(i64) -> V, lo: i64, hi: i64, v: V)
    requires n_from(n_i64(v)) == v, lo <= n_i64(v) <= hi, lo < hi
    ensures rt_at(
        |x: V| x691_cwn(lo as int, hi as int, n_i64(x) as int),
        |bytes: Seq<u8>, pos: int, limit: int| match dec_cwn(bytes, pos, limit, (hi - lo) as u64) { Some((d, p)) => Some((n_from((lo + d) as i64), p)), None => None },
        v)
{
    let enc = |x: V| x691_cwn(lo as int, hi as int, n_i64(x) as int);
    let idec = |bytes: Seq<u8>, pos: int, limit: int| match dec_cwn(bytes, pos, limit, (hi - lo) as u64) { Some((d, p)) => Some((n_from((lo + d) as i64), p)), None => None::<(V, int)> };
    assert forall|bytes: Seq<u8>, pos: int, limit: int| 0 <= pos && starts_with(bytes, pos, enc(v)) && pos + enc(v).len() <= limit
        implies #[trigger] idec(bytes, pos, limit) == Some((v, pos + enc(v).len())) by {
        lemma_rt_cwn(bytes, pos, limit, lo as int, hi as int, n_i64(v) as int);
    }
}

/// stand-ins for the macro-generated `impl Number for $T` (`impl_number!` in src/descriptor/numbers.rs: a macro_rules body cannot carry a
/// contract). The two bodies are the macro's bodies with $T substituted; `@expect` in uper.spec checks on every run that the macro still
/// reads `self as i64` / `value as $T` and is invoked for exactly these eight types. The conversions are Rust `as` casts (verified, not assumed).
impl numbers::Number for u8 {
    open spec fn n_i64(self) -> i64 { self as i64 }
    open spec fn n_from(v: i64) -> u8 { v as u8 }
    fn to_i64(self) -> (r: i64) { self as i64 }
    fn from_i64(value: i64) -> (r: Self) { value as u8 }
}
impl numbers::Number for u16 {
    open spec fn n_i64(self) -> i64 { self as i64 }
    open spec fn n_from(v: i64) -> u16 { v as u16 }
    fn to_i64(self) -> (r: i64) { self as i64 }
    fn from_i64(value: i64) -> (r: Self) { value as u16 }
}
impl numbers::Number for u32 {
    open spec fn n_i64(self) -> i64 { self as i64 }
    open spec fn n_from(v: i64) -> u32 { v as u32 }
    fn to_i64(self) -> (r: i64) { self as i64 }
    fn from_i64(value: i64) -> (r: Self) { value as u32 }
}
impl numbers::Number for u64 {
    open spec fn n_i64(self) -> i64 { self as i64 }
    open spec fn n_from(v: i64) -> u64 { v as u64 }
    fn to_i64(self) -> (r: i64) { self as i64 }
    fn from_i64(value: i64) -> (r: Self) { value as u64 }
}
impl numbers::Number for i8 {
    open spec fn n_i64(self) -> i64 { self as i64 }
    open spec fn n_from(v: i64) -> i8 { v as i8 }
    fn to_i64(self) -> (r: i64) { self as i64 }
    fn from_i64(value: i64) -> (r: Self) { value as i8 }
}
impl numbers::Number for i16 {
    open spec fn n_i64(self) -> i64 { self as i64 }
    open spec fn n_from(v: i64) -> i16 { v as i16 }
    fn to_i64(self) -> (r: i64) { self as i64 }
    fn from_i64(value: i64) -> (r: Self) { value as i16 }
}
impl numbers::Number for i32 {
    open spec fn n_i64(self) -> i64 { self as i64 }
    open spec fn n_from(v: i64) -> i32 { v as i32 }
    fn to_i64(self) -> (r: i64) { self as i64 }
    fn from_i64(value: i64) -> (r: Self) { value as i32 }
}
impl numbers::Number for i64 {
    open spec fn n_i64(self) -> i64 { self as i64 }
    open spec fn n_from(v: i64) -> i64 { v as i64 }
    fn to_i64(self) -> (r: i64) { self as i64 }
    fn from_i64(value: i64) -> (r: Self) { value as i64 }
}

/// the law of the Number impls that the INTEGER round trip needs: converting to the codec's i64 and back is the identity
/// (for u64 on the values an i64 can hold -- larger ones are outside every constraint the constants `MIN`/`MAX: Option<i64>` can express)
pub proof fn lemma_number_law_u8(v: u8) ensures <u8 as numbers::Number>::n_from(numbers::Number::n_i64(v)) == v {}
pub proof fn lemma_number_law_u16(v: u16) ensures <u16 as numbers::Number>::n_from(numbers::Number::n_i64(v)) == v {}
pub proof fn lemma_number_law_u32(v: u32) ensures <u32 as numbers::Number>::n_from(numbers::Number::n_i64(v)) == v {}
pub proof fn lemma_number_law_u64(v: u64) requires v <= i64::MAX as u64 ensures <u64 as numbers::Number>::n_from(numbers::Number::n_i64(v)) == v {}
pub proof fn lemma_number_law_i8(v: i8) ensures <i8 as numbers::Number>::n_from(numbers::Number::n_i64(v)) == v {}
pub proof fn lemma_number_law_i16(v: i16) ensures <i16 as numbers::Number>::n_from(numbers::Number::n_i64(v)) == v {}
pub proof fn lemma_number_law_i32(v: i32) ensures <i32 as numbers::Number>::n_from(numbers::Number::n_i64(v)) == v {}
pub proof fn lemma_number_law_i64(v: i64) ensures <i64 as numbers::Number>::n_from(numbers::Number::n_i64(v)) == v {}

/// INTEGER with bounds, not extensible: descriptor-level round trip for ANY Number type whose conversion law holds at v
pub proof fn lemma_rt_integer_descriptor<T: numbers::Number, C: numbers::Constraint<T>>(v: T)
    requires
        numbers::Integer::<T, C>::xr_ok(), T::n_from(v.n_i64()) == v,
        (match C::MIN { Some(x) => x, None => 0i64 }) <= v.n_i64() <= (match C::MAX { Some(x) => x, None => i64::MAX }),
    ensures rt_at(|x: T| numbers::Integer::<T, C>::x_enc(x), |b: Seq<u8>, p: int, l: int| numbers::Integer::<T, C>::x_dec(b, p, l), v)
{
    let lo = match C::MIN { Some(x) => x, None => 0i64 };
    let hi = match C::MAX { Some(x) => x, None => i64::MAX };
    assert forall|bytes: Seq<u8>, pos: int, limit: int| 0 <= pos && starts_with(bytes, pos, numbers::Integer::<T, C>::x_enc(v)) && pos + numbers::Integer::<T, C>::x_enc(v).len() <= limit
        implies #[trigger] numbers::Integer::<T, C>::x_dec(bytes, pos, limit) == Some((v, pos + numbers::Integer::<T, C>::x_enc(v).len())) by {
        lemma_rt_cwn(bytes, pos, limit, lo as int, hi as int, v.n_i64() as int);
    }
}

// ===== canonical order of SET components (X.680 8.6; C16), stated over the generated TAG constants (glue rule G12) =====

/// class rank (UNIVERSAL < APPLICATION < context-specific < PRIVATE), then number
pub open spec fn tag_rank(t: Tag) -> (int, int) {
    match t { Tag::Universal(n) => (0int, n as int), Tag::Application(n) => (1int, n as int), Tag::ContextSpecific(n) => (2int, n as int), Tag::Private(n) => (3int, n as int) }
}
pub open spec fn tag_lt(a: Tag, b: Tag) -> bool {
    tag_rank(a).0 < tag_rank(b).0 || (tag_rank(a).0 == tag_rank(b).0 && tag_rank(a).1 < tag_rank(b).1)
}
/// the components visited as i-th and (i+1)-th are not in DESCENDING order of their generated TAG constants, unless i is the last root
/// component (root before additions). Not strict: the generator emits UNIVERSAL 16 as TAG constant of an untagged SET OF component
/// (walker.rs: `field.tag.unwrap_or(Tag::DEFAULT_SEQUENCE_OF)` for both orderings) while it sorts by the type's real tag (UNIVERSAL 17), so
/// SEQUENCE OF / SET OF neighbours tie on the constants (observation O-1 in DESIGN.md 12.5; the wire order itself is right)
pub open spec fn set_pair_ok(ext: Option<u64>, i: int, a: Tag, b: Tag) -> bool {
    (ext matches Some(e) && i == e) || tag_lt(a, b) || a == b
}

/// glue rule G13: a fact that tools/glue.py established (or refuted) by comparing the generated text with an `-- @expect` line of the zoo
/// schema; `holds == false` makes the obligation that carries it unprovable, so the mismatch is reported like every other failed obligation
pub open spec fn verif_expected(what: &str, holds: bool) -> bool { holds }
