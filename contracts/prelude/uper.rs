// ===== unit uper: trusted wrappers for std functions without a vstd specification =====

/// R22: `C::DEFAULT_VALUE.to_owned()`
#[verifier::external_body]
pub fn verif_default_value<C: default::Constraint>() -> C::Owned { C::DEFAULT_VALUE.to_owned() }

/// Result::and_then (std definition)
pub assume_specification<T, E, U, F: FnOnce(T) -> Result<U, E>>[ Result::<T, E>::and_then ](r: Result<T, E>, f: F) -> (o: Result<U, E>)
    requires r matches Ok(t) ==> f.requires((t,)),
    ensures match r { Ok(t) => f.ensures((t,), o), Err(e) => o == Err::<U, E>(e) };

/// R3: `String::from_utf8(v).map_err(|e| ErrorKind::FromUtf8Error(e).into())` (UTF-8 validation is std code; no contract depends on its outcome)
#[verifier::external_body]
pub fn verif_string_from_utf8(v: Vec<u8>) -> (r: Result<String, Error>) { unimplemented!() }

/// R24: `C::DEFAULT_VALUE.ne(value)`
pub uninterp spec fn default_ne<C: default::Constraint>(value: C::Owned) -> bool;
#[verifier::external_body]
pub fn verif_default_ne<C: default::Constraint>(value: &C::Owned) -> (r: bool)
    ensures r == default_ne::<C>(*value)
{ C::DEFAULT_VALUE.ne(value) }

/// R4: `s.chars().count()` (number of Unicode scalar values; std iterator code)
pub uninterp spec fn str_char_count(s: &str) -> nat;
#[verifier::external_body]
pub fn verif_str_char_count(s: &str) -> (n: usize)
    ensures n == str_char_count(s)
{ s.chars().count() }

/// stand-in for the macro-generated `impl Number for u64` (impl_number!): needed only because `u64` is the default type
/// argument of `numbers::Integer`; the methods of unit uper are verified for an arbitrary `T: Number`
impl numbers::Number for u64 {
    open spec fn n_i64(self) -> i64 { self as i64 }
    open spec fn n_from(v: i64) -> u64 { v as u64 }
    #[verifier::external_body]
    fn to_i64(self) -> (r: i64) { self as i64 }
    #[verifier::external_body]
    fn from_i64(value: i64) -> (r: Self) { value as u64 }
}

// ===== compositional encoding of SEQUENCE OF / SET OF (X.691 20) =====

/// the encodings of the elements, one after the other
pub open spec fn enc_all<T: WritableType>(s: Seq<T::Type>) -> Seq<bool>
    decreases s.len()
{
    if s.len() == 0 { Seq::<bool>::empty() } else { enc_all::<T>(s.drop_last()) + T::x_enc(s.last()) }
}
pub open spec fn all_ok<T: WritableType>(s: Seq<T::Type>) -> bool {
    forall|i: int| 0 <= i < s.len() ==> #[trigger] T::x_ok(s[i])
}
/// 20.6 / 20.5: the length part of a SEQUENCE OF with n elements
pub open spec fn seqof_len(min: Option<u64>, max: Option<u64>, ext: bool, n: u64) -> Seq<bool> {
    let out = n < len_lb(min) || n > (match max { Some(x) => x, None => 0x7fff_ffff_ffff_ffffu64 });
    (if ext { seq![out] } else { Seq::<bool>::empty() }) + (if out { x691_len_general(n) } else { x691_len(min, max, n) })
}
/// described by seqof_len: below the fragmentation threshold (known findings KF-C01-*) and inside the profile
pub open spec fn seqof_ok(min: Option<u64>, max: Option<u64>, ext: bool, n: u64) -> bool {
    let out = n < len_lb(min) || n > (match max { Some(x) => x, None => 0x7fff_ffff_ffff_ffffu64 });
    n < 16384 && (out || octets_in_profile(min, max))
}
