// ===== ITU-T X.691 (08/2015), unaligned PER: reference encodings as spec functions =====
// Written from the standard, clause numbers given; this is the oracle of C02 / C10 (trusted transcription).

/// 11.3: the w-bit non-negative-binary-integer (big endian, leading bit first) of v; w <= 64
pub open spec fn nbits(v: u64, w: nat) -> Seq<bool>
    recommends w <= 64
{
    Seq::new(w, |i: int| (v >> ((w - 1 - i) as u64)) & 1 == 1)
}

/// v is representable as a non-negative-binary-integer of w bits
pub open spec fn fits(v: u64, w: nat) -> bool { w >= 64 || (v >> (w as u64)) == 0 }

/// big-endian value of a bit string (11.3.4: sum of 2^n over the bits set)
pub open spec fn bits_val(bs: Seq<bool>) -> nat
    decreases bs.len()
{
    if bs.len() == 0 { 0 } else { 2 * bits_val(bs.drop_last()) + (if bs.last() { 1nat } else { 0nat }) }
}

/// 11.5.4: number of bits of a constrained whole number with range - 1 == r: the minimum needed to hold r
pub open spec fn width(r: u64) -> nat
    decreases r
{
    if r == 0 { 0 } else { 1 + width(r / 2) }
}

/// 11.5 (and 13.2.2): constrained whole number, lb <= v <= ub, both in the 64-bit range
pub open spec fn x691_cwn(lb: int, ub: int, v: int) -> Seq<bool>
    recommends lb <= v <= ub, ub - lb <= u64::MAX
{
    nbits((v - lb) as u64, width((ub - lb) as u64))
}

/// 11.3.6: number of octets of a minimum-octet non-negative-binary-integer (at least one)
pub open spec fn min_octets(n: u64) -> nat
    decreases n
{
    if n < 256 { 1 } else { 1 + min_octets(n / 256) }
}

/// 11.9.3.6 / 11.9.3.7: general (unconstrained) length determinant for n < 16K
pub open spec fn x691_len_short(n: u64) -> Seq<bool>
    recommends n < 16384
{
    if n < 128 { seq![false] + nbits(n, 7) } else { seq![true, false] + nbits(n, 14) }
}

/// 11.9.3.8: number of 16K blocks announced by a fragment header for n >= 16K remaining items (1..4)
pub open spec fn frag_blocks(n: u64) -> u64 { if n / 16384 >= 4 { 4 } else { n / 16384 } }

/// 11.9.3.5 - 11.9.3.8: general length determinant; for n >= 16K the header of the first fragment
pub open spec fn x691_len_general(n: u64) -> Seq<bool> {
    if n < 16384 { x691_len_short(n) } else { seq![true, true] + nbits(frag_blocks(n), 6) }
}

/// number of items announced by `x691_len_general(n)`
pub open spec fn len_announced(n: u64) -> u64 { if n < 16384 { n } else { (16384 * frag_blocks(n)) as u64 } }

/// 11.7: semi-constrained whole number with offset n = v - lb from the lower bound:
/// length (in octets, 11.9 unconstrained) followed by the minimum-octet encoding of n
pub open spec fn x691_semi(n: u64) -> Seq<bool> {
    x691_len_short(min_octets(n) as u64) + nbits(n, 8 * min_octets(n))
}

/// 11.6: normally small non-negative whole number
pub open spec fn x691_nsnnwn(n: u64) -> Seq<bool> {
    if n < 64 { seq![false] + nbits(n, 6) } else { seq![true] + x691_semi(n) }
}

/// 11.4.6: number of octets of a minimum-octet 2's-complement-binary-integer
pub open spec fn fits_2c(v: i64, bit_len: nat) -> bool {
    bit_len >= 64 || (bit_len >= 1 && -pow2((bit_len - 1) as nat) <= v < pow2((bit_len - 1) as nat))
}
pub open spec fn pow2(k: nat) -> int decreases k { if k == 0 { 1 } else { 2 * pow2((k - 1) as nat) } }
pub open spec fn min_octets_2c(v: i64) -> nat {
    if fits_2c(v, 8) { 1 } else if fits_2c(v, 16) { 2 } else if fits_2c(v, 24) { 3 } else if fits_2c(v, 32) { 4 }
    else if fits_2c(v, 40) { 5 } else if fits_2c(v, 48) { 6 } else if fits_2c(v, 56) { 7 } else { 8 }
}

/// 11.4: 2's-complement-binary-integer of bit_len bits: the low bit_len bits of the 64-bit two's complement
pub open spec fn x691_2c(v: i64, bit_len: nat) -> Seq<bool>
    recommends fits_2c(v, bit_len), bit_len <= 64
{
    nbits(v as u64, bit_len)
}

/// 11.8: unconstrained whole number: length in octets + minimum-octet 2's complement
pub open spec fn x691_uwn(v: i64) -> Seq<bool> {
    x691_len_short(min_octets_2c(v) as u64) + x691_2c(v, 8 * min_octets_2c(v))
}

/// 11.9.4: length determinant with constraints.  `Some` bounds as given by the caller.
///  - ub < 64K: constrained whole number (11.9.4.1 -> 11.5), empty for lb == ub
///  - no bounds: general form (11.9.4.2 -> 11.9.3.5..8)
/// Outside the conformance profile (DESIGN.md section 4; known finding KF-len64k): a bound is given and
/// ub >= 64K (or only lb is given).  X.691 prescribes the general form; the code writes the constrained-number form.
pub open spec fn len_constrained(lb: Option<u64>, ub: Option<u64>) -> bool { ub is Some && ub.unwrap() < 65536 }
pub open spec fn len_lb(lb: Option<u64>) -> u64 { match lb { Some(x) => x, None => 0 } }
pub open spec fn len_ub(ub: Option<u64>) -> u64 { match ub { Some(x) => x, None => 0x7fff_ffff_ffff_ffff } }

pub open spec fn x691_len(lb: Option<u64>, ub: Option<u64>, n: u64) -> Seq<bool>
    recommends (lb is None && ub is None) || len_constrained(lb, ub)
{
    if lb is None && ub is None { x691_len_general(n) }
    else { x691_cwn(len_lb(lb) as int, len_ub(ub) as int, n as int) }
}

/// 14 / 23: index of an ENUMERATED value or CHOICE alternative
pub open spec fn x691_index(std_variants: u64, extensible: bool, index: u64) -> Seq<bool>
    recommends std_variants >= 1, extensible || index < std_variants
{
    if index < std_variants {
        (if extensible { seq![false] } else { Seq::<bool>::empty() }) + x691_cwn(0, std_variants - 1, index as int)
    } else {
        seq![true] + x691_nsnnwn((index - std_variants) as u64)
    }
}

// ---- abstract writer / reader relations ----

/// the writer appended exactly the bit string `bs` at its cursor; every other bit is unchanged
/// (bits of bytes that did not exist before are zero)
pub open spec fn appended(b0: Seq<u8>, p0: int, b1: Seq<u8>, p1: int, bs: Seq<bool>) -> bool {
    &&& p1 == p0 + bs.len()
    &&& b1.len() >= b0.len()
    &&& p1 <= b1.len() * 8
    &&& forall|j: int| 0 <= j < b1.len() * 8 ==> #[trigger] bit_at(b1, j) ==
          (if p0 <= j < p1 { bs[j - p0] } else if j < b0.len() * 8 { bit_at(b0, j) } else { false })
}

/// what is guaranteed after a failed (possibly partial) write: nothing before the old cursor changed
pub open spec fn write_failed(b0: Seq<u8>, p0: int, b1: Seq<u8>, p1: int) -> bool {
    &&& p1 >= p0
    &&& b1.len() >= b0.len()
    &&& forall|j: int| 0 <= j < p0 ==> #[trigger] bit_at(b1, j) == bit_at(b0, j)
}

/// the bits [pos, pos + bs.len()) of the input are `bs`
pub open spec fn starts_with(bytes: Seq<u8>, pos: int, bs: Seq<bool>) -> bool {
    &&& pos + bs.len() <= bytes.len() * 8
    &&& forall|i: int| 0 <= i < bs.len() ==> #[trigger] bit_at(bytes, pos + i) == bs[i]
}

// ---- lemmas about the vocabulary ----

pub proof fn lemma_shr_step(v: u64, k: u64)
    requires k < 63
    ensures (v >> 1) >> k == v >> ((k + 1) as u64), (v >> 1) * 2 + (v & 1) == v, (v & 1) <= 1
{
    assert((v >> 1) >> k == v >> ((k + 1) as u64)) by(bit_vector) requires k < 63;
    assert((v >> 1) * 2 + (v & 1) == v) by(bit_vector);
    assert((v & 1) <= 1) by(bit_vector);
}

pub proof fn lemma_nbits_step(v: u64, w: nat)
    requires 1 <= w <= 64
    ensures nbits(v, w).drop_last() =~= nbits(v >> 1, (w - 1) as nat), nbits(v, w).last() == (v & 1 == 1)
{
    assert forall|i: int| 0 <= i < w - 1 implies nbits(v, w)[i] == nbits(v >> 1, (w - 1) as nat)[i] by {
        lemma_shr_step(v, (w - 2 - i) as u64);
    }
    assert(v >> 0 == v) by(bit_vector);
}

pub proof fn lemma_bits_val_nbits(v: u64, w: nat)
    requires w <= 64, fits(v, w)
    ensures bits_val(nbits(v, w)) == v
    decreases w
{
    if w == 0 {
        assert(v >> 0 == v) by(bit_vector);
    } else {
        lemma_nbits_step(v, w);
        let v1 = v >> 1;
        if w < 64 {
            lemma_shr_step(v, (w - 1) as u64);
        } else {
            assert((v >> 1) >> 63 == 0) by(bit_vector);
        }
        lemma_bits_val_nbits(v1, (w - 1) as nat);
        lemma_shr_step(v, 0);
    }
}

/// nbits is injective on values that fit: equal bit strings, equal values (round trip of 11.3)
pub proof fn lemma_nbits_inj(a: u64, b: u64, w: nat)
    requires w <= 64, fits(a, w), fits(b, w), nbits(a, w) =~= nbits(b, w)
    ensures a == b
{
    lemma_bits_val_nbits(a, w);
    lemma_bits_val_nbits(b, w);
}

/// width(r) is what the code computes as 64 - leading_zeros(r), and every v <= r fits into width(r) bits
pub proof fn lemma_width(r: u64)
    ensures width(r) == 64 - vstd::std_specs::bits::u64_leading_zeros(r), width(r) <= 64,
        forall|v: u64| v <= r ==> #[trigger] fits(v, width(r)),
    decreases r
{
    reveal_with_fuel(vstd::std_specs::bits::u64_leading_zeros, 2);
    vstd::std_specs::bits::axiom_u64_leading_zeros(r);
    if r != 0 {
        lemma_width((r / 2) as u64);
    }
    let k = (64 - vstd::std_specs::bits::u64_leading_zeros(r)) as u64;
    assert forall|v: u64| v <= r implies #[trigger] fits(v, width(r)) by {
        if k < 64 {
            assert(v >> k == 0) by(bit_vector) requires v <= r, k < 64, r >> k == 0;
        }
    }
}

pub proof fn lemma_appended_compose(b0: Seq<u8>, p0: int, b1: Seq<u8>, p1: int, b2: Seq<u8>, p2: int, x: Seq<bool>, y: Seq<bool>)
    requires appended(b0, p0, b1, p1, x), appended(b1, p1, b2, p2, y), 0 <= p0 <= b0.len() * 8
    ensures appended(b0, p0, b2, p2, x + y)
{
    assert forall|j: int| 0 <= j < b2.len() * 8 implies #[trigger] bit_at(b2, j) ==
          (if p0 <= j < p2 { (x + y)[j - p0] } else if j < b0.len() * 8 { bit_at(b0, j) } else { false }) by {
        // second write: bit j of b2 in terms of b1
        assert(bit_at(b2, j) == (if p1 <= j < p2 { y[j - p1] } else if j < b1.len() * 8 { bit_at(b1, j) } else { false }));
        if j < b1.len() * 8 {
            assert(bit_at(b1, j) == (if p0 <= j < p1 { x[j - p0] } else if j < b0.len() * 8 { bit_at(b0, j) } else { false }));
        }
        if p0 <= j < p1 {
            assert((x + y)[j - p0] == x[j - p0]);
        } else if p1 <= j < p2 {
            assert((x + y)[j - p0] == y[j - p0 - x.len()]);
        }
    }
}

pub proof fn lemma_appended_empty(b0: Seq<u8>, p0: int)
    requires p0 <= b0.len() * 8
    ensures appended(b0, p0, b0, p0, Seq::<bool>::empty())
{ }

/// `wrote` (bit copy) is `appended` of the copied source bits
pub proof fn lemma_wrote_appended(b0: Seq<u8>, b1: Seq<u8>, src: Seq<u8>, sp: int, dp: int, n: int)
    requires wrote(b0, b1, src, sp, dp, n), 0 <= sp, n >= 0, sp + n <= src.len() * 8, dp + n <= b1.len() * 8
    ensures appended(b0, dp, b1, dp + n, bits_of(src).subrange(sp, sp + n))
{
    let bs = bits_of(src).subrange(sp, sp + n);
    assert forall|j: int| 0 <= j < b1.len() * 8 implies #[trigger] bit_at(b1, j) ==
          (if dp <= j < dp + n { bs[j - dp] } else if j < b0.len() * 8 { bit_at(b0, j) } else { false }) by {
        if dp <= j < dp + n {
            assert(bs[j - dp] == bits_of(src)[sp + (j - dp)]);
        }
    }
}

pub proof fn lemma_wrote_bit_appended(b0: Seq<u8>, b1: Seq<u8>, p: int, bit: bool)
    requires wrote_bit(b0, b1, p, bit), p + 1 <= b1.len() * 8
    ensures appended(b0, p, b1, p + 1, seq![bit])
{ }

pub proof fn lemma_write_failed_trans(b0: Seq<u8>, p0: int, b1: Seq<u8>, p1: int, b2: Seq<u8>, p2: int)
    requires write_failed(b0, p0, b1, p1), write_failed(b1, p1, b2, p2)
    ensures write_failed(b0, p0, b2, p2)
{ }

pub proof fn lemma_appended_failed(b0: Seq<u8>, p0: int, b1: Seq<u8>, p1: int, bs: Seq<bool>)
    requires appended(b0, p0, b1, p1, bs), 0 <= p0 <= b0.len() * 8
    ensures write_failed(b0, p0, b1, p1)
{ }

/// big-endian byte j (0 = most significant) of v
pub open spec fn be_byte(v: u64, j: int) -> u8 { ((v >> ((8 * (7 - j)) as u64)) & 0xff) as u8 }

pub proof fn lemma_be_bit(v: u64, g: u64)
    requires g < 64
    ensures ((((v >> ((8 * (7 - g / 8)) as u64)) & 0xff) as u8) & (0x80u8 >> ((g % 8) as u8)) != 0) == ((v >> ((63 - g) as u64)) & 1 == 1)
{
    assert(((((v >> ((8 * (7 - g / 8)) as u64)) & 0xff) as u8) & (0x80u8 >> ((g % 8) as u8)) != 0) == ((v >> ((63 - g) as u64)) & 1 == 1)) by(bit_vector)
        requires g < 64;
}

/// the trailing w bits of the big-endian bytes of v are nbits(v, w)
pub proof fn lemma_be_bits(v: u64, bytes: Seq<u8>, w: nat)
    requires w <= 64, bytes.len() == 8, forall|j: int| 0 <= j < 8 ==> #[trigger] bytes[j] == be_byte(v, j)
    ensures bits_of(bytes).subrange(64 - w, 64) =~= nbits(v, w)
{
    assert forall|i: int| 0 <= i < w implies bits_of(bytes).subrange(64 - w, 64)[i] == nbits(v, w)[i] by {
        let g = (64 - w + i) as u64;
        lemma_be_bit(v, g);
        assert(bytes[(g / 8) as int] == be_byte(v, (g / 8) as int));
    }
}

/// if the leading 64 - w bits of the big-endian bytes of v are zero, v fits into w bits
pub proof fn lemma_be_fits(v: u64, bytes: Seq<u8>, w: nat)
    requires w <= 64, bytes.len() == 8, forall|j: int| 0 <= j < 8 ==> #[trigger] bytes[j] == be_byte(v, j),
        forall|g: int| 0 <= g < 64 - w ==> !#[trigger] bit_at(bytes, g)
    ensures fits(v, w)
    decreases 64 - w
{
    if w < 64 {
        // bit g = 63 - w (from the top) is zero; induct on w + 1
        lemma_be_fits(v, bytes, w + 1);
        let g = (63 - w) as u64;
        let wu = w as u64;
        lemma_be_bit(v, g);
        assert(!bit_at(bytes, g as int));
        assert(bytes[(g / 8) as int] == be_byte(v, (g / 8) as int));
        let sh = (63 - g) as u64;
        assert((v >> sh) & 1 == 0 || (v >> sh) & 1 == 1) by(bit_vector);
        assert((v >> sh) & 1 == 0);
        if w + 1 < 64 {
            assert(v >> wu == 0) by(bit_vector) requires wu < 63, (v >> ((wu + 1) as u64)) == 0, (v >> wu) & 1 == 0;
        } else {
            assert(v >> wu == 0) by(bit_vector) requires wu == 63, (v >> wu) & 1 == 0;
        }
    }
}

pub proof fn lemma_width_consts()
    ensures width(63) == 6, width(127) == 7, width(16383) == 14, width(0) == 0, width(255) == 8, width(65535) == 16,
{
    assert(width(63) == 6) by(compute);
    assert(width(127) == 7) by(compute);
    assert(width(16383) == 14) by(compute);
    assert(width(255) == 8) by(compute);
    assert(width(65535) == 16) by(compute);
}

pub proof fn lemma_width_div256(n: u64)
    requires n >= 256
    ensures width(n) == width(n / 256) + 8
{
    reveal_with_fuel(width, 9);
    let a1 = n / 2; let a2 = a1 / 2; let a3 = a2 / 2; let a4 = a3 / 2; let a5 = a4 / 2; let a6 = a5 / 2; let a7 = a6 / 2; let a8 = a7 / 2;
    assert(a8 == n / 256);
    assert(a7 != 0 && a1 != 0);
}

/// 11.3.6: the minimum number of octets in terms of the bit width
pub proof fn lemma_min_octets(n: u64)
    ensures min_octets(n) == (if width(n) <= 8 { 1nat } else { (width(n) + 7) / 8 }), 1 <= min_octets(n) <= 8, fits(n, 8 * min_octets(n))
    decreases n
{
    lemma_width(n);
    if n < 256 {
        lemma_width(255);
        lemma_width_consts();
        // n <= 255 fits into 8 bits, hence width(n) <= 8
        assert(fits(n, 8));
        lemma_width_le(n, 255);
    } else {
        lemma_width_div256(n);
        lemma_min_octets((n / 256) as u64);
        lemma_width((n / 256) as u64);
    }
    let k = min_octets(n);
    if 8 * k < 64 {
        let w = width(n) as u64;
        let kk = (8 * k) as u64;
        assert(n >> kk == 0) by(bit_vector) requires w <= kk, kk < 64, w >= 64 || n >> w == 0;
    }
}

pub proof fn lemma_width_le(a: u64, b: u64)
    requires a <= b
    ensures width(a) <= width(b)
    decreases b
{
    if a != 0 {
        lemma_width_le((a / 2) as u64, (b / 2) as u64);
    }
}

pub proof fn lemma_nbits_len(v: u64, w: nat)
    ensures nbits(v, w).len() == w
{ }

/// the trailing w bits of a single byte are nbits(byte, w)
pub proof fn lemma_byte_low_bits(b: u8, w: nat)
    requires w <= 8
    ensures bits_of(seq![b]).subrange(8 - w, 8) =~= nbits(b as u64, w)
{
    let lhs = bits_of(seq![b]).subrange(8 - w, 8);
    let rhs = nbits(b as u64, w);
    assert forall|i: int| 0 <= i < w implies #[trigger] lhs[i] == rhs[i] by {
        let g = (8 - w + i) as u8;
        let sh = (w - 1 - i) as u64;
        assert((b & (0x80u8 >> g) != 0) == (((b as u64) >> sh) & 1 == 1)) by(bit_vector) requires g < 8, sh == 7 - g;
        assert(seq![b][0] == b);
        assert((8 - w + i) / 8 == 0 && (8 - w + i) % 8 == g);
    }
}

// ===== decoders (what the readers compute), tied to the encoders above by the round-trip lemmas below =====

/// value of the w-bit field at bit position pos (11.3.4)
pub open spec fn field_val(bytes: Seq<u8>, pos: int, w: nat) -> nat {
    bits_val(bits_of(bytes).subrange(pos, pos + w))
}

/// 11.9.3.5 - 11.9.3.8: (announced length, position after the determinant); None: input exhausted
pub open spec fn dec_len_general(bytes: Seq<u8>, pos: int, limit: int) -> Option<(u64, int)> {
    if pos + 1 > limit { None }
    else if !bit_at(bytes, pos) {
        if pos + 8 > limit { None } else { Some((field_val(bytes, pos + 1, 7) as u64, pos + 8)) }
    } else if pos + 2 > limit { None }
    else if !bit_at(bytes, pos + 1) {
        if pos + 16 > limit { None } else { Some((field_val(bytes, pos + 2, 14) as u64, pos + 16)) }
    } else if pos + 8 > limit { None }
    else {
        let m = field_val(bytes, pos + 2, 6);
        Some(((16384 * (if m >= 4 { 4 } else { m })) as u64, pos + 8))
    }
}

/// 11.7 decoder: length in octets, then that many octets (at most 8 are representable)
pub open spec fn dec_semi(bytes: Seq<u8>, pos: int, limit: int) -> Option<(u64, int)> {
    match dec_len_general(bytes, pos, limit) {
        Some((n, p1)) => if n <= 8 && p1 + 8 * n <= limit { Some((field_val(bytes, p1, (8 * n) as nat) as u64, p1 + 8 * n)) } else { None },
        None => None,
    }
}

/// 11.6 decoder
pub open spec fn dec_nsnnwn(bytes: Seq<u8>, pos: int, limit: int) -> Option<(u64, int)> {
    if pos + 1 > limit { None }
    else if bit_at(bytes, pos) { dec_semi(bytes, pos + 1, limit) }
    else if pos + 7 > limit { None }
    else { Some((field_val(bytes, pos + 1, 6) as u64, pos + 7)) }
}

/// constrained number decoder (11.5 / 11.3 with bounds): None if exhausted or the field exceeds the range
pub open spec fn dec_cwn(bytes: Seq<u8>, pos: int, limit: int, range: u64) -> Option<(u64, int)> {
    let w = width(range);
    if pos + w > limit { None }
    else if field_val(bytes, pos, w) > range { None }
    else { Some((field_val(bytes, pos, w) as u64, pos + w)) }
}

pub open spec fn range_u(lb: Option<u64>, ub: Option<u64>) -> u64 {
    if len_ub(ub) >= len_lb(lb) { (len_ub(ub) - len_lb(lb)) as u64 } else { 0 }
}

pub proof fn lemma_bits_val_bound(bs: Seq<bool>)
    ensures bits_val(bs) < pow2(bs.len())
    decreases bs.len()
{
    if bs.len() > 0 { lemma_bits_val_bound(bs.drop_last()); }
}

pub proof fn lemma_pow2_values()
    ensures pow2(0) == 1, pow2(6) == 64, pow2(7) == 128, pow2(8) == 256, pow2(14) == 16384, pow2(16) == 65536, pow2(63) == 0x8000_0000_0000_0000, pow2(64) == 0x1_0000_0000_0000_0000,
{
    assert(pow2(6) == 64) by(compute);
    assert(pow2(7) == 128) by(compute);
    assert(pow2(8) == 256) by(compute);
    assert(pow2(14) == 16384) by(compute);
    assert(pow2(16) == 65536) by(compute);
    assert(pow2(63) == 0x8000_0000_0000_0000) by(compute);
    assert(pow2(64) == 0x1_0000_0000_0000_0000) by(compute);
}

pub proof fn lemma_pow2_mono(a: nat, b: nat)
    requires a <= b
    ensures pow2(a) <= pow2(b), pow2(a) >= 1
    decreases b
{
    if a < b { lemma_pow2_mono(a, (b - 1) as nat); }
    else { lemma_pow2_pos(a); }
}

pub proof fn lemma_pow2_pos(a: nat)
    ensures pow2(a) >= 1
    decreases a
{
    if a > 0 { lemma_pow2_pos((a - 1) as nat); }
}

/// a field that starts with nbits(v, w) has value v (round trip of 11.3 at the spec level)
pub proof fn lemma_field_val_nbits(bytes: Seq<u8>, pos: int, v: u64, w: nat)
    requires w <= 64, fits(v, w), 0 <= pos, starts_with(bytes, pos, nbits(v, w))
    ensures field_val(bytes, pos, w) == v
{
    let sub = bits_of(bytes).subrange(pos, pos + w);
    assert forall|i: int| 0 <= i < w implies sub[i] == nbits(v, w)[i] by {
        assert(bit_at(bytes, pos + i) == nbits(v, w)[i]);
        assert(sub[i] == bits_of(bytes)[pos + i]);
    }
    assert(sub =~= nbits(v, w));
    lemma_bits_val_nbits(v, w);
}

/// reading a w-bit field into the tail of eight zero bytes and converting them big-endian yields the field value
pub proof fn lemma_read_field(rbytes: Seq<u8>, pos: int, w: nat, before: Seq<u8>, after: Seq<u8>, value: u64)
    requires
        w <= 64, 0 <= pos, pos + w <= rbytes.len() * 8,
        before.len() == 8, forall|k: int| 0 <= k < 8 ==> before[k] == 0u8,
        copied(before, after, rbytes, pos, 64 - w, w as int),
        forall|j: int| 0 <= j < 8 ==> #[trigger] after[j] == be_byte(value, j),
    ensures field_val(rbytes, pos, w) == value, fits(value, w)
{
    assert forall|g: int| 0 <= g < 64 - w implies !#[trigger] bit_at(after, g) by {
        assert(bit_at(after, g) == bit_at(before, g));
        lemma_zero_byte_bits((g % 8) as u8);
    }
    lemma_be_fits(value, after, w);
    lemma_be_bits(value, after, w);
    let sub = bits_of(rbytes).subrange(pos, pos + w);
    assert forall|i: int| 0 <= i < w implies sub[i] == nbits(value, w)[i] by {
        let j = 64 - w + i;
        assert(bit_at(after, j) == bit_at(rbytes, pos + (j - (64 - w))));
        assert(bits_of(after).subrange(64 - w, 64)[i] == bits_of(after)[j]);
    }
    assert(sub =~= nbits(value, w));
    lemma_bits_val_nbits(value, w);
}

/// a copy into the sub-slice `whole[a..]` seen on the whole destination
pub proof fn lemma_subslice_copied(before: Seq<u8>, after: Seq<u8>, src: Seq<u8>, sp: int, a: int)
    requires
        0 <= a <= before.len(), after.len() == before.len(),
        forall|k: int| 0 <= k < a ==> after[k] == before[k],
        copied(before.subrange(a, before.len() as int), after.subrange(a, after.len() as int), src, sp, 0, (before.len() - a) * 8),
    ensures copied(before, after, src, sp, 8 * a, (before.len() - a) * 8)
{
    let n = before.len() as int;
    let sb = before.subrange(a, n);
    let sa = after.subrange(a, n);
    assert forall|j: int| 0 <= j < n * 8 implies #[trigger] bit_at(after, j) ==
        (if 8 * a <= j < 8 * a + (n - a) * 8 { bit_at(src, sp + (j - 8 * a)) } else { bit_at(before, j) }) by {
        if j >= 8 * a {
            let i = j - 8 * a;
            assert(bit_at(sa, i) == bit_at(src, sp + i));
            assert((8 * a + i) / 8 == a + i / 8 && (8 * a + i) % 8 == i % 8);
            assert(sa[i / 8] == after[a + i / 8]);
        } else {
            assert(j / 8 < a);
        }
    }
}

/// a copy of n bits into the sub-slice `whole[a..]` (at its bit dp) seen on the whole destination
pub proof fn lemma_subslice_copied_n(before: Seq<u8>, after: Seq<u8>, src: Seq<u8>, sp: int, a: int, dp: int, n: int)
    requires
        0 <= a <= before.len(), after.len() == before.len(), 0 <= dp, 0 <= n,
        forall|k: int| 0 <= k < a ==> after[k] == before[k],
        copied(before.subrange(a, before.len() as int), after.subrange(a, after.len() as int), src, sp, dp, n),
    ensures copied(before, after, src, sp, 8 * a + dp, n)
{
    let len = before.len() as int;
    let sb = before.subrange(a, len);
    let sa = after.subrange(a, len);
    assert forall|j: int| 0 <= j < len * 8 implies #[trigger] bit_at(after, j) ==
        (if 8 * a + dp <= j < 8 * a + dp + n { bit_at(src, sp + (j - (8 * a + dp))) } else { bit_at(before, j) }) by {
        if j >= 8 * a {
            let i = j - 8 * a;
            assert(bit_at(sa, i) == (if dp <= i < dp + n { bit_at(src, sp + (i - dp)) } else { bit_at(sb, i) }));
            assert((8 * a + i) / 8 == a + i / 8 && (8 * a + i) % 8 == i % 8);
            assert(sa[i / 8] == after[a + i / 8]);
            assert(sb[i / 8] == before[a + i / 8]);
        } else {
            assert(j / 8 < a);
        }
    }
}

/// `buf` holds exactly the n bits [sp, sp+n) of src, left aligned, zero padded to whole octets
pub open spec fn payload(buf: Seq<u8>, src: Seq<u8>, sp: int, n: int) -> bool {
    &&& buf.len() == (n + 7) / 8
    &&& forall|j: int| 0 <= j < buf.len() * 8 ==> #[trigger] bit_at(buf, j) == (if j < n { bit_at(src, sp + j) } else { false })
}

/// reading w bits into the tail of one zero byte yields the field value
pub proof fn lemma_read_byte_field(rbytes: Seq<u8>, pos: int, w: nat, before: Seq<u8>, after: Seq<u8>)
    requires
        w <= 8, 0 <= pos, pos + w <= rbytes.len() * 8,
        before.len() == 1, before[0] == 0u8,
        copied(before, after, rbytes, pos, 8 - w, w as int),
    ensures field_val(rbytes, pos, w) == after[0], after[0] < pow2(w)
{
    let b = after[0];
    lemma_byte_low_bits(b, w);
    assert(seq![b] =~= after);
    let sub = bits_of(rbytes).subrange(pos, pos + w);
    assert forall|i: int| 0 <= i < w implies sub[i] == nbits(b as u64, w)[i] by {
        let j = 8 - w + i;
        assert(bit_at(after, j) == bit_at(rbytes, pos + (j - (8 - w))));
        assert(bits_of(after).subrange(8 - w, 8)[i] == bits_of(after)[j]);
    }
    assert(sub =~= nbits(b as u64, w));
    // leading 8 - w bits are zero, hence b fits into w bits
    assert forall|g: int| 0 <= g < 8 - w implies !#[trigger] bit_at(after, g) by {
        assert(bit_at(after, g) == bit_at(before, g));
        lemma_zero_byte_bits((g % 8) as u8);
    }
    lemma_byte_fits(b, w);
    lemma_bits_val_nbits(b as u64, w);
    lemma_bits_val_bound(sub);
}

pub proof fn lemma_byte_fits(b: u8, w: nat)
    requires w <= 8, forall|g: int| 0 <= g < 8 - w ==> !#[trigger] bit_at(seq![b], g)
    ensures fits(b as u64, w)
    decreases 8 - w
{
    if w < 8 {
        lemma_byte_fits(b, w + 1);
        let g = (7 - w) as u8;
        let wu = w as u64;
        assert(!bit_at(seq![b], g as int));
        assert(seq![b][0] == b);
        assert((b & (0x80u8 >> g)) == 0);
        let v = b as u64;
        assert(v >> wu == 0) by(bit_vector) requires wu < 8, g == 7 - wu, (b & (0x80u8 >> g)) == 0, v == b as u64, wu + 1 >= 64 || (v >> ((wu + 1) as u64)) == 0;
    } else {
        let v = b as u64;
        assert(v >> 8 == 0) by(bit_vector) requires v == b as u64;
    }
}

pub proof fn lemma_shl_pow2(k: u64)
    requires k <= 62
    ensures (1i64 << k) == pow2(k as nat), 1 <= (1i64 << k) <= 0x4000_0000_0000_0000
    decreases k
{
    if k == 0 {
        assert((1i64 << 0u64) == 1) by(bit_vector);
    } else {
        lemma_shl_pow2((k - 1) as u64);
        let a = 1i64 << k;
        let b = 1i64 << ((k - 1) as u64);
        assert(a == 2 * b && 1 <= a <= 0x4000_0000_0000_0000) by(bit_vector) requires 1 <= k <= 62, a == 1i64 << k, b == 1i64 << ((k - 1) as u64);
    }
}

pub proof fn lemma_width_pow2(u: u64, w: nat)
    ensures width(u) <= w <==> u < pow2(w)
    decreases u
{
    lemma_pow2_pos(w);
    if u != 0 && w != 0 {
        lemma_width_pow2((u / 2) as u64, (w - 1) as nat);
    }
}

/// the magnitude pattern whose leading zeros the code counts: v for v >= 0, !v (== -v - 1) for v < 0
pub open spec fn mag_2c(v: i64) -> u64 { if v < 0 { !(v as u64) } else { v as u64 } }

pub proof fn lemma_mag_2c(v: i64)
    ensures mag_2c(v) == (if v < 0 { -v - 1 } else { v as int }), mag_2c(v) < 0x8000_0000_0000_0000
{
    if v < 0 {
        let x = v as u64;
        let m: i64 = (-(v + 1)) as i64;
        assert(!x == m as u64) by(bit_vector) requires x == v as u64, m == -(v + 1), v < 0;
    }
}

pub proof fn lemma_fits_2c_mag(v: i64, bit_len: nat)
    requires 1 <= bit_len <= 64
    ensures fits_2c(v, bit_len) <==> (bit_len == 64 || width(mag_2c(v)) <= bit_len - 1)
{
    lemma_mag_2c(v);
    lemma_width_pow2(mag_2c(v), (bit_len - 1) as nat);
    lemma_pow2_values();
    if bit_len == 64 { lemma_width_pow2(mag_2c(v), 63); }
}

/// 11.4.6 / 11.8: what the code computes from leading zeros / ones is the minimum number of octets
pub proof fn lemma_min_octets_2c(v: i64)
    ensures
        vstd::std_specs::bits::u64_leading_zeros(mag_2c(v)) >= 1,
        min_octets_2c(v) == 8 - (vstd::std_specs::bits::u64_leading_zeros(mag_2c(v)) - 1) / 8,
        1 <= min_octets_2c(v) <= 8,
        fits_2c(v, 8 * min_octets_2c(v)),
{
    let u = mag_2c(v);
    lemma_mag_2c(v);
    lemma_width(u);
    lemma_pow2_values();
    lemma_width_pow2(u, 63);
    lemma_fits_2c_mag(v, 8);
    lemma_fits_2c_mag(v, 16);
    lemma_fits_2c_mag(v, 24);
    lemma_fits_2c_mag(v, 32);
    lemma_fits_2c_mag(v, 40);
    lemma_fits_2c_mag(v, 48);
    lemma_fits_2c_mag(v, 56);
    lemma_fits_2c_mag(v, 64);
}

/// the fragment size returned for a length >= 16K (kept out of the callers' queries: div/mul by 16384)
pub proof fn lemma_announced(value: u64, multiple: u8)
    requires value >= 16384, multiple as u64 == (if value / 16384 >= 4 { 4 } else { value / 16384 })
    ensures
        multiple as u64 == frag_blocks(value), 1 <= multiple <= 4,
        (multiple as u64) * 16384 == len_announced(value),
        16384 <= len_announced(value) <= 65536, len_announced(value) <= value,
        x691_len_general(value).len() == 8,
{
    let fb = frag_blocks(value);
    assert(fb == 1 || fb == 2 || fb == 3 || fb == 4);
    if fb == 1 { assert(16384 * fb == 16384); }
    else if fb == 2 { assert(16384 * fb == 32768); }
    else if fb == 3 { assert(16384 * fb == 49152); }
    else { assert(16384 * fb == 65536); }
}

// ===== 17 OCTET STRING, 11.9.3.8 fragmentation =====

/// 11.9.3.5 - 11.9.3.8.4: n octets with an unconstrained length: (header + 16K-blocks)* + final header (< 16K) + rest.
/// A string whose length is a multiple of 16K ends with the header of an empty fragment.
pub open spec fn x691_frag_octets(s: Seq<u8>) -> Seq<bool>
    decreases s.len()
{
    let n = s.len() as u64;
    if s.len() < 16384 {
        x691_len_short(n) + bits_of(s)
    } else if s.len() > u64::MAX {
        Seq::empty()
    } else {
        let a = len_announced(n) as int;
        if 16384 <= a <= s.len() {
            x691_len_general(n) + bits_of(s.subrange(0, a)) + x691_frag_octets(s.subrange(a, s.len() as int))
        } else { Seq::empty() }   // unreachable: 16384 <= len_announced(n) <= n
    }
}

pub open spec fn octets_in_profile(lb: Option<u64>, ub: Option<u64>) -> bool {
    (lb is None && ub is None) || len_constrained(lb, ub)
}

/// 17: OCTET STRING with SIZE (lb..ub[, ...])
pub open spec fn x691_octets(lb: Option<u64>, ub: Option<u64>, ext: bool, s: Seq<u8>) -> Seq<bool>
    recommends octets_in_profile(lb, ub), ext || (len_lb(lb) <= s.len() <= len_ub(ub))
{
    let n = s.len() as u64;
    let out = n < len_lb(lb) || n > len_ub(ub);
    let e = if ext { seq![out] } else { Seq::<bool>::empty() };
    if out { e + x691_frag_octets(s) }                                                  // 17.3
    else if len_ub(ub) == 0 { e }                                                       // 17.5
    else if lb is Some && lb == ub && len_ub(ub) < 65536 { e + bits_of(s) }             // 17.6, 17.7
    else if lb is None && ub is None { e + x691_frag_octets(s) }                        // 17.8, unconstrained length
    else { e + x691_len(lb, ub, n) + bits_of(s) }                                       // 17.8, constrained length
}

pub proof fn lemma_frag_unfold(s: Seq<u8>)
    requires s.len() <= u64::MAX
    ensures
        s.len() < 16384 ==> x691_frag_octets(s) == x691_len_short(s.len() as u64) + bits_of(s),
        s.len() >= 16384 ==> ({
            let a = len_announced(s.len() as u64) as int;
            16384 <= a <= s.len() && a <= 65536 &&
            x691_frag_octets(s) == x691_len_general(s.len() as u64) + bits_of(s.subrange(0, a)) + x691_frag_octets(s.subrange(a, s.len() as int))
        }),
{
    if s.len() >= 16384 {
        let n = s.len() as u64;
        let m: u8 = (if n / 16384 >= 4 { 4u64 } else { n / 16384 }) as u8;
        lemma_announced(n, m);
    }
}

pub proof fn lemma_bits_of_len(s: Seq<u8>)
    ensures bits_of(s).len() == s.len() * 8
{ }

// ===== 16 BIT STRING =====

/// 11.9.3.8 applied to bits: like x691_frag_octets with the bit as the unit
pub open spec fn x691_frag_bits(bs: Seq<bool>) -> Seq<bool>
    decreases bs.len()
{
    let n = bs.len() as u64;
    if bs.len() < 16384 {
        x691_len_short(n) + bs
    } else if bs.len() > u64::MAX {
        Seq::empty()
    } else {
        let a = len_announced(n) as int;
        if 16384 <= a <= bs.len() {
            x691_len_general(n) + bs.subrange(0, a) + x691_frag_bits(bs.subrange(a, bs.len() as int))
        } else { Seq::empty() }
    }
}

/// 16: BIT STRING with SIZE (lb..ub[, ...]); bs are the bits of the value
pub open spec fn x691_bitstr(lb: Option<u64>, ub: Option<u64>, ext: bool, bs: Seq<bool>) -> Seq<bool>
    recommends octets_in_profile(lb, ub), ext || (len_lb(lb) <= bs.len() <= len_ub(ub))
{
    let n = bs.len() as u64;
    let out = n < len_lb(lb) || n > len_ub(ub);
    let e = if ext { seq![out] } else { Seq::<bool>::empty() };
    if out { e + x691_frag_bits(bs) }                                                   // 16.6
    else if lb is Some && lb == ub && len_ub(ub) < 65536 { e + bs }                     // 16.8 - 16.10
    else if lb is None && ub is None { e + x691_frag_bits(bs) }                         // 16.11, unconstrained length
    else { e + x691_len(lb, ub, n) + bs }                                               // 16.11, constrained length
}

pub proof fn lemma_frag_bits_unfold(bs: Seq<bool>)
    requires bs.len() <= u64::MAX
    ensures
        bs.len() < 16384 ==> x691_frag_bits(bs) == x691_len_short(bs.len() as u64) + bs,
        bs.len() >= 16384 ==> ({
            let a = len_announced(bs.len() as u64) as int;
            16384 <= a <= bs.len() && a <= 65536 &&
            x691_frag_bits(bs) == x691_len_general(bs.len() as u64) + bs.subrange(0, a) + x691_frag_bits(bs.subrange(a, bs.len() as int))
        }),
{
    if bs.len() >= 16384 {
        let n = bs.len() as u64;
        let m: u8 = (if n / 16384 >= 4 { 4u64 } else { n / 16384 }) as u8;
        lemma_announced(n, m);
    }
}

// ===== spec-level round trips: decoder(encoder(v) ++ anything) == v, consuming exactly the encoding (C10, C01) =====

pub proof fn lemma_starts_with_split(bytes: Seq<u8>, pos: int, a: Seq<bool>, b: Seq<bool>)
    requires starts_with(bytes, pos, a + b), 0 <= pos
    ensures starts_with(bytes, pos, a), starts_with(bytes, pos + a.len(), b)
{
    assert forall|i: int| 0 <= i < a.len() implies #[trigger] bit_at(bytes, pos + i) == a[i] by {
        assert((a + b)[i] == a[i]);
    }
    assert forall|i: int| 0 <= i < b.len() implies #[trigger] bit_at(bytes, pos + a.len() + i) == b[i] by {
        assert((a + b)[a.len() + i] == b[i]);
        assert(bit_at(bytes, pos + (a.len() + i)) == (a + b)[a.len() + i]);
    }
}

/// 11.5: reading back a constrained whole number
pub proof fn lemma_rt_cwn(bytes: Seq<u8>, pos: int, limit: int, lb: int, ub: int, v: int)
    requires lb <= v <= ub, ub - lb <= u64::MAX, 0 <= pos, starts_with(bytes, pos, x691_cwn(lb, ub, v)), pos + x691_cwn(lb, ub, v).len() <= limit
    ensures dec_cwn(bytes, pos, limit, (ub - lb) as u64) == Some(((v - lb) as u64, pos + x691_cwn(lb, ub, v).len())),
        x691_cwn(lb, ub, v).len() == width((ub - lb) as u64)
{
    let range = (ub - lb) as u64;
    lemma_width(range);
    assert(fits((v - lb) as u64, width(range)));
    lemma_field_val_nbits(bytes, pos, (v - lb) as u64, width(range));
}

/// 11.9.3.5 - 11.9.3.8: reading back a general length determinant yields the announced length
pub proof fn lemma_rt_len_general(bytes: Seq<u8>, pos: int, limit: int, n: u64)
    requires 0 <= pos, starts_with(bytes, pos, x691_len_general(n)), pos + x691_len_general(n).len() <= limit
    ensures dec_len_general(bytes, pos, limit) == Some((len_announced(n), pos + x691_len_general(n).len()))
{
    lemma_pow2_values();
    if n < 128 {
        lemma_starts_with_split(bytes, pos, seq![false], nbits(n, 7));
        assert(bit_at(bytes, pos + 0) == seq![false][0]);
        assert(fits(n, 7)) by { assert(n >> 7 == 0) by(bit_vector) requires n < 128; }
        lemma_field_val_nbits(bytes, pos + 1, n, 7);
    } else if n < 16384 {
        lemma_starts_with_split(bytes, pos, seq![true, false], nbits(n, 14));
        assert(bit_at(bytes, pos + 0) == seq![true, false][0]);
        assert(bit_at(bytes, pos + 1) == seq![true, false][1]);
        assert(fits(n, 14)) by { assert(n >> 14 == 0) by(bit_vector) requires n < 16384; }
        lemma_field_val_nbits(bytes, pos + 2, n, 14);
    } else {
        let m: u8 = (if n / 16384 >= 4 { 4u64 } else { n / 16384 }) as u8;
        lemma_announced(n, m);
        let fb = frag_blocks(n);
        lemma_starts_with_split(bytes, pos, seq![true, true], nbits(fb, 6));
        assert(bit_at(bytes, pos + 0) == seq![true, true][0]);
        assert(bit_at(bytes, pos + 1) == seq![true, true][1]);
        assert(fits(fb, 6)) by { assert(fb >> 6 == 0) by(bit_vector) requires fb <= 4; }
        lemma_field_val_nbits(bytes, pos + 2, fb, 6);
    }
}

/// 11.7: reading back a semi-constrained offset
pub proof fn lemma_rt_semi(bytes: Seq<u8>, pos: int, limit: int, n: u64)
    requires 0 <= pos, starts_with(bytes, pos, x691_semi(n)), pos + x691_semi(n).len() <= limit
    ensures dec_semi(bytes, pos, limit) == Some((n, pos + x691_semi(n).len()))
{
    lemma_min_octets(n);
    let k = min_octets(n) as u64;
    lemma_starts_with_split(bytes, pos, x691_len_short(k), nbits(n, 8 * min_octets(n)));
    assert(x691_len_general(k) == x691_len_short(k));
    lemma_rt_len_general(bytes, pos, limit, k);
    lemma_field_val_nbits(bytes, pos + x691_len_short(k).len(), n, 8 * min_octets(n));
}

/// 11.6: reading back a normally small non-negative whole number
pub proof fn lemma_rt_nsnnwn(bytes: Seq<u8>, pos: int, limit: int, n: u64)
    requires 0 <= pos, starts_with(bytes, pos, x691_nsnnwn(n)), pos + x691_nsnnwn(n).len() <= limit
    ensures dec_nsnnwn(bytes, pos, limit) == Some((n, pos + x691_nsnnwn(n).len()))
{
    if n < 64 {
        lemma_starts_with_split(bytes, pos, seq![false], nbits(n, 6));
        assert(bit_at(bytes, pos + 0) == seq![false][0]);
        assert(fits(n, 6)) by { assert(n >> 6 == 0) by(bit_vector) requires n < 64; }
        lemma_field_val_nbits(bytes, pos + 1, n, 6);
    } else {
        lemma_starts_with_split(bytes, pos, seq![true], x691_semi(n));
        assert(bit_at(bytes, pos + 0) == seq![true][0]);
        lemma_rt_semi(bytes, pos + 1, limit, n);
    }
}

/// what a writer appended is what a reader positioned at the old cursor finds
pub proof fn lemma_appended_starts_with(b0: Seq<u8>, p0: int, b1: Seq<u8>, p1: int, bs: Seq<bool>)
    requires appended(b0, p0, b1, p1, bs), 0 <= p0
    ensures starts_with(b1, p0, bs)
{
    assert forall|i: int| 0 <= i < bs.len() implies #[trigger] bit_at(b1, p0 + i) == bs[i] by { }
}

// ===== decoder of a fragmented item stream (X.691 11.9.3.8), shared by OCTET STRING (unit 8) and BIT STRING (unit 1) =====

/// decodes length determinants and the items that follow them until a fragment of fewer than 16K items ends the stream;
/// returns the concatenated content bits and the end position
#[verifier::opaque]
pub open spec fn dec_frag(bytes: Seq<u8>, pos: int, limit: int, unit: int) -> Option<(Seq<bool>, int)>
    decreases limit - pos
{
    match dec_len_general(bytes, pos, limit) {
        None => None,
        Some((n, p1)) => {
            let p2 = p1 + unit * n;
            if p2 > limit || p2 <= pos || p1 < 0 { None }
            else {
                let chunk = bits_of(bytes).subrange(p1, p2);
                if n < 16384 { Some((chunk, p2)) }
                else { match dec_frag(bytes, p2, limit, unit) { None => None, Some((rest, p3)) => Some((chunk + rest, p3)) } }
            }
        }
    }
}

pub proof fn lemma_starts_with_subrange(bytes: Seq<u8>, pos: int, bs: Seq<bool>)
    requires 0 <= pos, starts_with(bytes, pos, bs)
    ensures bits_of(bytes).subrange(pos, pos + bs.len()) =~= bs
{
    assert forall|i: int| 0 <= i < bs.len() implies bits_of(bytes).subrange(pos, pos + bs.len())[i] == bs[i] by {
        assert(bit_at(bytes, pos + i) == bs[i]);
    }
}

/// 11.9.3.8 round trip for octets: decoding the fragment stream of `s` gives back the bits of `s` and ends behind it
pub proof fn lemma_rt_frag_octets(bytes: Seq<u8>, pos: int, limit: int, s: Seq<u8>)
    requires 0 <= pos, s.len() <= 0x0fff_ffff_ffff_ffff, starts_with(bytes, pos, x691_frag_octets(s)), pos + x691_frag_octets(s).len() <= limit
    ensures dec_frag(bytes, pos, limit, 8) == Some((bits_of(s), pos + x691_frag_octets(s).len()))
    decreases s.len()
{
    reveal_with_fuel(dec_frag, 2);
    lemma_frag_unfold(s);
    lemma_bits_of_len(s);
    let n = s.len() as u64;
    if s.len() < 16384 {
        let l = x691_len_short(n);
        lemma_starts_with_split(bytes, pos, l, bits_of(s));
        assert(x691_len_general(n) == l);
        lemma_rt_len_general(bytes, pos, limit, n);
        let p1 = pos + l.len();
        lemma_starts_with_subrange(bytes, p1, bits_of(s));
        assert(p1 + 8 * n == pos + x691_frag_octets(s).len());
    } else {
        let a = len_announced(n) as int;
        let l = x691_len_general(n);
        let head = s.subrange(0, a);
        let tail = s.subrange(a, s.len() as int);
        let rest = x691_frag_octets(tail);
        lemma_bits_of_len(head);
        assert(x691_frag_octets(s) == (l + bits_of(head)) + rest);
        lemma_starts_with_split(bytes, pos, l + bits_of(head), rest);
        lemma_starts_with_split(bytes, pos, l, bits_of(head));
        lemma_rt_len_general(bytes, pos, limit, n);
        let p1 = pos + l.len();
        let p2 = p1 + 8 * a;
        lemma_starts_with_subrange(bytes, p1, bits_of(head));
        assert((l + bits_of(head)).len() == l.len() + 8 * a);
        lemma_rt_frag_octets(bytes, p2, limit, tail);
        assert(bits_of(head) + bits_of(tail) =~= bits_of(s)) by {
            assert forall|i: int| 0 <= i < 8 * s.len() implies (bits_of(head) + bits_of(tail))[i] == bits_of(s)[i] by {
                if i < 8 * a { assert(head[i / 8] == s[i / 8]); } else { assert(tail[(i - 8 * a) / 8] == s[a + (i - 8 * a) / 8]); assert((i - 8 * a) % 8 == i % 8); assert(a + (i - 8 * a) / 8 == i / 8); }
            }
        }
    }
}

/// a whole-octet payload seen as bits
pub proof fn lemma_payload_bits(buf: Seq<u8>, src: Seq<u8>, sp: int, n: int)
    requires payload(buf, src, sp, n), n % 8 == 0, 0 <= n, 0 <= sp, sp + n <= src.len() * 8
    ensures bits_of(buf) =~= bits_of(src).subrange(sp, sp + n)
{
    assert(buf.len() * 8 == n);
    assert forall|i: int| 0 <= i < n implies bits_of(buf)[i] == bits_of(src).subrange(sp, sp + n)[i] by {
        assert(bit_at(buf, i) == bit_at(src, sp + i));
    }
}

/// a buffer that grew by n octets which were then filled from the input: its bits are the old bits followed by that input range
pub proof fn lemma_append_chunk_bits(b1: Seq<u8>, b2: Seq<u8>, b3: Seq<u8>, src: Seq<u8>, sp: int, n: int)
    requires
        0 <= n, 0 <= sp, sp + 8 * n <= src.len() * 8,
        b2.len() == b1.len() + n, b3.len() == b2.len(),
        forall|k: int| 0 <= k < b1.len() ==> b3[k] == b1[k],
        copied(b2.subrange(b1.len() as int, b2.len() as int), b3.subrange(b1.len() as int, b3.len() as int), src, sp, 0, 8 * n),
    ensures bits_of(b3) =~= bits_of(b1) + bits_of(src).subrange(sp, sp + 8 * n)
{
    let a = b1.len() as int;
    let s3 = b3.subrange(a, b3.len() as int);
    assert forall|i: int| 0 <= i < b3.len() * 8 implies bits_of(b3)[i] == (bits_of(b1) + bits_of(src).subrange(sp, sp + 8 * n))[i] by {
        if i < 8 * a {
            assert(b3[i / 8] == b1[i / 8]);
        } else {
            let j = i - 8 * a;
            assert(bit_at(s3, j) == bit_at(src, sp + j));
            assert(s3[j / 8] == b3[a + j / 8]);
            assert((8 * a + j) / 8 == a + j / 8 && (8 * a + j) % 8 == j % 8);
        }
    }
}

/// one unfolding of the fragment decoder, stated on what a reader observes: the length determinant at q, then the items
pub proof fn lemma_dec_frag_step(rb: Seq<u8>, q: int, lim: int, unit: int)
    requires 0 <= q, unit >= 1
    ensures
        dec_len_general(rb, q, lim) is None ==> dec_frag(rb, q, lim, unit) is None,
        dec_len_general(rb, q, lim) matches Some((n, q1)) ==> (
            q1 > q &&
            if q1 + unit * n > lim { dec_frag(rb, q, lim, unit) is None }
            else if n < 16384 { dec_frag(rb, q, lim, unit) == Some((bits_of(rb).subrange(q1, q1 + unit * n), q1 + unit * n)) }
            else { dec_frag(rb, q, lim, unit) == (match dec_frag(rb, q1 + unit * n, lim, unit) {
                        Some((rest, pe)) => Some((bits_of(rb).subrange(q1, q1 + unit * n) + rest, pe)), None => None }) }),
{
    reveal_with_fuel(dec_frag, 2);
    match dec_len_general(rb, q, lim) {
        Some((n, q1)) => { assert(unit * n >= 0) by(nonlinear_arith) requires unit >= 1, n >= 0; }
        None => {}
    }
}

/// appending the next chunk to what has been collected (associativity packaged for the reader loops)
pub proof fn lemma_dec_frag_collect(whole: Option<(Seq<bool>, int)>, sofar: Seq<bool>, chunk: Seq<bool>, at_q: Option<(Seq<bool>, int)>, at_next: Option<(Seq<bool>, int)>, sofar2: Seq<bool>)
    requires
        whole == (match at_q { Some((rest, pe)) => Some((sofar + rest, pe)), None => None }),
        at_q == (match at_next { Some((rest, pe)) => Some((chunk + rest, pe)), None => None }),
        sofar2 =~= sofar + chunk,
    ensures whole == (match at_next { Some((rest, pe)) => Some((sofar2 + rest, pe)), None => None })
{
    match at_next {
        Some((rest, pe)) => { assert((sofar + chunk) + rest =~= sofar + (chunk + rest)); }
        None => {}
    }
}

/// the octets `v` hold exactly the bit string `bs`, left aligned, unused trailing bits zero
pub open spec fn is_bits(v: Seq<u8>, bs: Seq<bool>) -> bool {
    &&& v.len() == (bs.len() + 7) / 8
    &&& forall|j: int| 0 <= j < v.len() * 8 ==> #[trigger] bit_at(v, j) == (if j < bs.len() { bs[j] } else { false })
}

pub proof fn lemma_payload_is_bits(buf: Seq<u8>, src: Seq<u8>, sp: int, n: int)
    requires payload(buf, src, sp, n), 0 <= n, 0 <= sp, sp + n <= src.len() * 8
    ensures is_bits(buf, bits_of(src).subrange(sp, sp + n))
{
    let bs = bits_of(src).subrange(sp, sp + n);
    assert forall|j: int| 0 <= j < buf.len() * 8 implies #[trigger] bit_at(buf, j) == (if j < bs.len() { bs[j] } else { false }) by {
        if j < n { assert(bs[j] == bit_at(src, sp + j)); }
    }
}

/// BIT STRING reader step: the buffer grew by zero octets and received n more bits behind the `sofar.len()` it held
pub proof fn lemma_bits_append(b1: Seq<u8>, b2: Seq<u8>, b3: Seq<u8>, sofar: Seq<bool>, src: Seq<u8>, sp: int, n: int)
    requires
        0 <= n, 0 <= sp, sp + n <= src.len() * 8,
        is_bits(b1, sofar), grown(b1, b2), b2.len() == (sofar.len() + n + 7) / 8,
        copied(b2, b3, src, sp, sofar.len() as int, n),
    ensures is_bits(b3, sofar + bits_of(src).subrange(sp, sp + n))
{
    let chunk = bits_of(src).subrange(sp, sp + n);
    let all = sofar + chunk;
    lemma_grown_bits(b1, b2);
    assert forall|j: int| 0 <= j < b3.len() * 8 implies #[trigger] bit_at(b3, j) == (if j < all.len() { all[j] } else { false }) by {
        if j < sofar.len() {
            assert(bit_at(b3, j) == bit_at(b2, j));
            assert(j < b1.len() * 8);
        } else if j < sofar.len() + n {
            assert(bit_at(b3, j) == bit_at(src, sp + (j - sofar.len())));
            assert(chunk[j - sofar.len()] == bit_at(src, sp + (j - sofar.len())));
        } else {
            assert(bit_at(b3, j) == bit_at(b2, j));
        }
    }
}

/// 11.9.3.8 round trip for bit strings
pub proof fn lemma_rt_frag_bits(bytes: Seq<u8>, pos: int, limit: int, bs: Seq<bool>)
    requires 0 <= pos, bs.len() <= 0x0fff_ffff_ffff_ffff, starts_with(bytes, pos, x691_frag_bits(bs)), pos + x691_frag_bits(bs).len() <= limit
    ensures dec_frag(bytes, pos, limit, 1) == Some((bs, pos + x691_frag_bits(bs).len()))
    decreases bs.len()
{
    reveal_with_fuel(dec_frag, 2);
    lemma_frag_bits_unfold(bs);
    let n = bs.len() as u64;
    if bs.len() < 16384 {
        let l = x691_len_short(n);
        lemma_starts_with_split(bytes, pos, l, bs);
        assert(x691_len_general(n) == l);
        lemma_rt_len_general(bytes, pos, limit, n);
        lemma_starts_with_subrange(bytes, pos + l.len(), bs);
    } else {
        let a = len_announced(n) as int;
        let l = x691_len_general(n);
        let head = bs.subrange(0, a);
        let tail = bs.subrange(a, bs.len() as int);
        let rest = x691_frag_bits(tail);
        assert(x691_frag_bits(bs) == (l + head) + rest);
        lemma_starts_with_split(bytes, pos, l + head, rest);
        lemma_starts_with_split(bytes, pos, l, head);
        lemma_rt_len_general(bytes, pos, limit, n);
        let p1 = pos + l.len();
        lemma_starts_with_subrange(bytes, p1, head);
        assert((l + head).len() == l.len() + a);
        lemma_rt_frag_bits(bytes, p1 + a, limit, tail);
        assert(head + tail =~= bs);
    }
}

// ===== type-level rules (X.691 12, 13, 14) as used by the Writer API =====

/// 13: INTEGER with optional bounds and extension marker (inside the profile: both bounds or none)
pub open spec fn x691_integer(min: Option<i64>, max: Option<i64>, ext: bool, v: i64) -> Seq<bool> {
    let lo = match min { Some(x) => x, None => 0i64 };
    let hi = match max { Some(x) => x, None => i64::MAX };
    if ext {
        if v < lo || v > hi { seq![true] + x691_uwn(v) } else { seq![false] + x691_cwn(lo as int, hi as int, v as int) }
    } else if min is None && max is None { x691_uwn(v) }
    else { x691_cwn(lo as int, hi as int, v as int) }
}

/// 14 / 23 decoder: index of an ENUMERATED value or CHOICE alternative
pub open spec fn dec_index(bytes: Seq<u8>, pos: int, limit: int, std_variants: u64, extensible: bool) -> Option<(u64, int)> {
    let root = (if std_variants >= 1 { std_variants - 1 } else { 0 }) as u64;
    if extensible {
        if pos >= limit { None }
        else if bit_at(bytes, pos) {
            match dec_nsnnwn(bytes, pos + 1, limit) {
                Some((v, p)) => if v + std_variants <= u64::MAX { Some(((v + std_variants) as u64, p)) } else { None },
                None => None,
            }
        } else { dec_cwn(bytes, pos + 1, limit, root) }
    } else { dec_cwn(bytes, pos, limit, root) }
}

/// 14 / 23 round trip: decoding the encoding of an index gives the index back
pub proof fn lemma_rt_index(bytes: Seq<u8>, pos: int, limit: int, std_variants: u64, extensible: bool, index: u64)
    requires
        0 <= pos, std_variants >= 1, extensible || index < std_variants,
        starts_with(bytes, pos, x691_index(std_variants, extensible, index)), pos + x691_index(std_variants, extensible, index).len() <= limit,
    ensures dec_index(bytes, pos, limit, std_variants, extensible) == Some((index, pos + x691_index(std_variants, extensible, index).len()))
{
    if index < std_variants {
        let e = if extensible { seq![false] } else { Seq::<bool>::empty() };
        let c = x691_cwn(0, std_variants - 1, index as int);
        lemma_starts_with_split(bytes, pos, e, c);
        if extensible { assert(bit_at(bytes, pos + 0) == seq![false][0]); }
        lemma_rt_cwn(bytes, pos + e.len(), limit, 0, std_variants - 1, index as int);
    } else {
        let n = (index - std_variants) as u64;
        lemma_starts_with_split(bytes, pos, seq![true], x691_nsnnwn(n));
        assert(bit_at(bytes, pos + 0) == seq![true][0]);
        lemma_rt_nsnnwn(bytes, pos + 1, limit, n);
    }
}

/// a fresh, tight buffer that received exactly the bit string bs holds bs padded with 0 to whole octets (X.691 11.2.1, open type content)
pub proof fn lemma_fresh_is_bits(b: Seq<u8>, p: int, bs: Seq<bool>)
    requires appended(Seq::<u8>::empty(), 0, b, p, bs), tight_seq(b, p)
    ensures is_bits(b, bs)
{
    assert forall|j: int| 0 <= j < b.len() * 8 implies #[trigger] bit_at(b, j) == (if j < bs.len() { bs[j] } else { false }) by {
        if j >= p { assert(!bit_at(b, j)); }
    }
}
