// ===== stand-ins for the payload types of per::ErrorKind that extraction drops (DESIGN.md 3.1) =====
// `ErrorKind`, `Error`, `Inner` and the `Error::*` constructors below them are extracted from
// src/protocol/per/err.rs; only these three payload types are replaced.
pub struct Backtrace;
impl Backtrace {
    #[verifier::external_body]
    pub fn new_unresolved() -> Backtrace { Backtrace }
}
pub struct FromUtf8Error;

// vstd attaches `obeys_from_spec() ==> r == from_spec(v)` to every `From::from`; the concrete
// post-condition used here is the `ensures` clause on the extracted impl instead.
impl vstd::std_specs::convert::FromSpecImpl<ErrorKind> for Error {
    open spec fn obeys_from_spec() -> bool { false }
    open spec fn from_spec(v: ErrorKind) -> Error { arbitrary() }
}
