// ===== ON variant only (feature descriptive-deserialize-errors): opaque stand-in for the diagnostics record =====
// The gated statements only build and push these records; what they contain is not part of any contract (C19).
pub struct ScopeDescription { pub opaque: u8 }
impl ScopeDescription {
    #[verifier::external_body] pub fn warning(s: String) -> Self { unimplemented!() }
    #[verifier::external_body] pub fn bits_length_determinant(lower_bound: Option<u64>, upper_bound: Option<u64>, result: Result<u64, Error>) -> Self { unimplemented!() }
    #[verifier::external_body] pub fn bits_enumeration_index(std_variants: u64, extensible: bool, result: Result<u64, Error>) -> Self { unimplemented!() }
    #[verifier::external_body] pub fn bits_choice_index(std_variants: u64, extensible: bool, result: Result<u64, Error>) -> Self { unimplemented!() }
    #[verifier::external_body] pub fn read_whole_sub_slice<T>(length_bytes: usize, write_position: usize, write_original: usize, len: usize, result: &Result<T, Error>) -> Self { unimplemented!() }
    #[verifier::external_body] pub fn read_bit_field_entry(is_opt: bool, result: &Result<Option<bool>, Error>) -> Self { unimplemented!() }
}
// stand-in for `#[derive(Clone)]` on per::Error (only the ON variant clones results into the diagnostics)
impl Clone for Error {
    #[verifier::external_body]
    fn clone(&self) -> (r: Self) ensures r == *self { unimplemented!() }
}
#[verifier::external_body]
pub fn verif_opaque_string() -> String { String::new() }
