// ===== C12 vocabulary: the scope search is an uninterpreted lookup (named assumption), the resolution step is verified =====

/// stand-in for model::ValueReference<..>: only the literal value matters for resolution
pub struct ValueReference { pub name: String, pub value: LiteralValue }
/// stand-ins for resolve::Unresolved, asn::Type<Unresolved> (opaque payload), asn::TagProperty wrapper and model::Definition
pub struct Unresolved;
pub struct Type<T> { pub id: u64, pub p: core::marker::PhantomData<T> }
impl<T> Clone for Type<T> { fn clone(&self) -> (r: Self) ensures r == *self { Type { id: self.id, p: core::marker::PhantomData } } }
pub struct Tagged { pub r#type: Type<Unresolved> }
pub struct Definition(pub String, pub Tagged);

/// stand-in for ResolveScope<'a>: which declaration a name finds (local before imported, by OID or name) is
/// iterator/String code outside Verus; it is abstracted to the uninterpreted functions below
pub struct ResolveScope<'a> { pub tag: &'a u8 }

impl<'a> ResolveScope<'a> {
    pub uninterp spec fn lookup_value(&self, name: Seq<char>) -> Option<ValueReference>;

    pub uninterp spec fn lookup_definition(&self, name: Seq<char>) -> Option<Definition>;

    #[verifier::external_body]
    pub fn definition(&self, name: &str) -> (r: Option<&'a Definition>)
        ensures (match r { Some(d) => self.lookup_definition(name@) == Some(*d), None => self.lookup_definition(name@) is None })
    { unimplemented!() }

    #[verifier::external_body]
    pub fn value_reference(&self, name: &str) -> (r: Option<&'a ValueReference>)
        ensures (match r { Some(vr) => self.lookup_value(name@) == Some(*vr), None => self.lookup_value(name@) is None })
    { unimplemented!() }
}

#[verifier::external_body]
pub fn verif_opaque_string() -> String { String::new() }

impl Clone for LiteralValue {
    #[verifier::external_body]
    fn clone(&self) -> (r: Self) ensures r == *self { unimplemented!() }
}
