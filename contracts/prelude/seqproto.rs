// ===== sequence protocol vocabulary (C03 / C05), DESIGN.md section 5 =====

/// bit j of the writer's buffer
pub open spec fn bb_bit(b: BitBuffer, j: int) -> bool { bit_at(b.buffer@, j) }

/// buffer b1 equals b0 except that bit p is v (cursor, read cursor and length unchanged)
pub open spec fn set_bit_rel(b0: BitBuffer, b1: BitBuffer, p: int, v: bool) -> bool {
    &&& b1.write_position == b0.write_position && b1.read_position == b0.read_position
    &&& b1.buffer@.len() == b0.buffer@.len()
    &&& b1.wf()
    &&& forall|j: int| 0 <= j < b0.buffer@.len() * 8 ==> #[trigger] bit_at(b1.buffer@, j) == (if j == p { v } else { bit_at(b0.buffer@, j) })
}

/// the extension header was appended at the old cursor: normally small (m - 1), then m one-bits;
/// the extension bit at bit_pos was set; nothing else before the old cursor changed
pub open spec fn ext_header_rel(b0: BitBuffer, b1: BitBuffer, bit_pos: int, m: int) -> bool {
    let hdr = x691_nsnnwn((m - 1) as u64);
    let l = hdr.len() as int;
    &&& b1.wf() && b1.write_position == b0.write_position + l + m
    &&& bit_at(b1.buffer@, bit_pos) == true
    &&& forall|i: int| 0 <= i < l ==> #[trigger] bit_at(b1.buffer@, b0.write_position + i) == hdr[i]
    &&& forall|i: int| 0 <= i < m ==> #[trigger] bit_at(b1.buffer@, b0.write_position + l + i) == true
    &&& forall|j: int| 0 <= j < b0.write_position && j != bit_pos ==> #[trigger] bit_at(b1.buffer@, j) == bit_at(b0.buffer@, j)
    &&& b1.buffer@.len() == max_int(b0.buffer@.len() as int, (b0.write_position + l + m + 7) / 8)
    &&& (b0.tight() ==> b1.tight())
}

/// what `b.write_bit(v)` does when the cursor is inside the buffer (presence bits written back)
pub open spec fn set_bit_at_cursor(b0: BitBuffer, b1: BitBuffer, r: Result<(), Error>, v: bool) -> bool {
    &&& r is Ok
    &&& b1.write_position == b0.write_position + 1 && b1.read_position == b0.read_position
    &&& b1.buffer@.len() == b0.buffer@.len()
    &&& b1.wf()
    &&& forall|j: int| 0 <= j < b0.buffer@.len() * 8 ==> #[trigger] bit_at(b1.buffer@, j) == (if j == b0.write_position { v } else { bit_at(b0.buffer@, j) })
}

/// what `read_bit` does, on the abstract reader state
pub open spec fn read_bit_rel(by0: Seq<u8>, p0: int, l0: int, by1: Seq<u8>, p1: int, l1: int, r: Result<bool, Error>) -> bool {
    &&& by1 == by0 && l1 == l0 && r_wf_c(by1, p1, l1)
    &&& (r is Ok <==> p0 < l0)
    &&& (r matches Ok(b) ==> b == bit_at(by0, p0) && p1 == p0 + 1)
    &&& (r is Err ==> p1 == p0)
}

pub open spec fn is_absent(r: Result<Option<bool>, Error>) -> bool { r matches Ok(Some(b)) && !b }

/// presence bit looked up at bitmap position q (with_read_position_at + read_bit): Err beyond the visible end
pub open spec fn lookup_bit(bytes: Seq<u8>, limit: int, q: int, r: Result<Option<bool>, Error>) -> bool {
    if q < limit { r matches Ok(Some(b)) && b == bit_at(bytes, q) } else { r is Err }
}

/// Functional contract of Scope::read_from_field: one reader step of the sequence protocol.
/// s0 / s1: scope before / after; (bytes, pos0, limit): input; pos1: cursor after; r: result
pub open spec fn scope_read_step(s0: Scope, bytes: Seq<u8>, pos0: int, limit: int, is_opt: bool, s1: Scope, pos1: int, r: Result<Option<bool>, Error>) -> bool {
    match s0 {
        Scope::OptBitField(range) =>
            pos1 == pos0 &&
            if range.start >= range.end { s1 == s0 && is_absent(r) }
            else if is_opt { s1 == Scope::OptBitField(Range { start: (range.start + 1) as usize, end: range.end }) && lookup_bit(bytes, limit, range.start as int, r) }
            else { s1 == s0 && r matches Ok(None) },
        Scope::AllBitField(range) =>
            pos1 == pos0 &&
            if range.start < range.end { s1 == Scope::AllBitField(Range { start: (range.start + 1) as usize, end: range.end }) && lookup_bit(bytes, limit, range.start as int, r) }
            else { s1 == s0 && is_absent(r) },
        Scope::ExtensibleSequenceEmpty(_) => pos1 == pos0 && s1 == s0 && is_absent(r),
        Scope::ExtensibleSequence { name, bit_pos, opt_bit_field, calls_until_ext_bitfield, number_of_ext_fields } =>
            if calls_until_ext_bitfield > 0 {
                pos1 == pos0 &&
                match opt_bit_field {
                    Some(range) if is_opt =>
                        s1 == (Scope::ExtensibleSequence { name, bit_pos, opt_bit_field: Some(Range { start: (range.start + 1) as usize, end: range.end }), calls_until_ext_bitfield: (calls_until_ext_bitfield - 1) as usize, number_of_ext_fields })
                        && lookup_bit(bytes, limit, range.start as int, r),
                    _ =>
                        s1 == (Scope::ExtensibleSequence { name, bit_pos, opt_bit_field, calls_until_ext_bitfield: (calls_until_ext_bitfield - 1) as usize, number_of_ext_fields })
                        && r matches Ok(None),
                }
            } else if bit_pos >= limit {
                r is Err && s1 == s0            // the extension bit itself lies beyond the visible end; nothing changed
            } else if !bit_at(bytes, bit_pos as int) {
                // no addition present
                pos1 == pos0 && s1 == Scope::ExtensibleSequenceEmpty(name) && is_absent(r)
            } else {
                // additions present: transmitted count (normally small length + 1), bitmap of that many bits
                match dec_nsnnwn(bytes, pos0, limit) {
                    None => r is Err && s1 == s0,
                    Some((c, p1)) => {
                        let k: int = if c + 1 > usize::MAX { usize::MAX as int } else { c + 1 };          // transmitted count (>= 1)
                        let end: int = if p1 + k > usize::MAX { usize::MAX as int } else { p1 + k };      // end of the transmitted bitmap
                        // the bitmap range keeps ALL transmitted bits: those of additions the reader does not know are consumed
                        // by skip_unknown_extension_additions at the end of read_sequence
                        pos1 == (if end < limit { end } else { limit }) &&
                        s1 == Scope::AllBitField(Range { start: (p1 + 1) as usize, end: end as usize }) && lookup_bit(bytes, limit, p1, r)
                    }
                }
            },
    }
}

/// pre-condition of one writer step: the presence-bit positions the scope refers to lie inside what has been written
pub open spec fn scope_write_pre(s0: Scope, b0: BitBuffer, is_opt: bool) -> bool {
    match s0 {
        Scope::OptBitField(range) => is_opt ==> range.start < range.end && range.end <= b0.write_position,
        Scope::AllBitField(range) => range.start < range.end && range.end <= b0.write_position,
        Scope::ExtensibleSequence { name, bit_pos, opt_bit_field, calls_until_ext_bitfield, number_of_ext_fields } =>
            bit_pos < b0.write_position
            && (calls_until_ext_bitfield == 0 ==> 1 <= number_of_ext_fields)
            && (calls_until_ext_bitfield > 0 && is_opt ==> (opt_bit_field matches Some(range) && range.start < range.end && range.end <= b0.write_position)),
        Scope::ExtensibleSequenceEmpty(_) => true,
    }
}

/// Functional contract of Scope::write_into_field: one writer step of the sequence protocol
pub open spec fn scope_write_step(s0: Scope, b0: BitBuffer, is_opt: bool, is_present: bool, s1: Scope, b1: BitBuffer, r: Result<(), Error>) -> bool {
    match s0 {
        Scope::OptBitField(range) => r is Ok && if is_opt {
                s1 == Scope::OptBitField(Range { start: (range.start + 1) as usize, end: range.end })
                && set_bit_rel(b0, b1, range.start as int, is_present)
            } else { s1 == s0 && b1 == b0 },
        Scope::AllBitField(range) => r is Ok &&
                s1 == Scope::AllBitField(Range { start: (range.start + 1) as usize, end: range.end })
                && set_bit_rel(b0, b1, range.start as int, is_present),
        Scope::ExtensibleSequence { name, bit_pos, opt_bit_field, calls_until_ext_bitfield, number_of_ext_fields } => r is Ok &&
            if calls_until_ext_bitfield == 0 {
                if is_present {
                    let l = x691_nsnnwn((number_of_ext_fields - 1) as u64).len() as int;
                    ext_header_rel(b0, b1, bit_pos as int, number_of_ext_fields as int)
                    && s1 == Scope::AllBitField(Range { start: (b0.write_position + l + 1) as usize, end: (b0.write_position + l + number_of_ext_fields) as usize })
                } else {
                    set_bit_rel(b0, b1, bit_pos as int, false)
                    && s1 == Scope::ExtensibleSequenceEmpty(name)
                }
            } else {
                match opt_bit_field {
                    Some(range) if is_opt =>
                        s1 == (Scope::ExtensibleSequence { name, bit_pos, opt_bit_field: Some(Range { start: (range.start + 1) as usize, end: range.end }), calls_until_ext_bitfield: (calls_until_ext_bitfield - 1) as usize, number_of_ext_fields })
                        && set_bit_rel(b0, b1, range.start as int, is_present),
                    _ =>
                        s1 == (Scope::ExtensibleSequence { name, bit_pos, opt_bit_field, calls_until_ext_bitfield: (calls_until_ext_bitfield - 1) as usize, number_of_ext_fields })
                        && b1 == b0,
                }
            },
        Scope::ExtensibleSequenceEmpty(name) => (r is Err <==> is_present) && s1 == s0 && b1 == b0
            && (r matches Err(e) ==> e.0.kind is ExtensionFieldsInconsistent),
    }
}

// stand-ins for `#[derive(Clone)]` on Scope and `#[derive(Default)]` on UperWriter (rule R6), verified
impl Clone for Scope {
    fn clone(&self) -> (r: Self)
        ensures r == *self
    {
        match self {
            Scope::OptBitField(range) => Scope::OptBitField(Range { start: range.start, end: range.end }),
            Scope::AllBitField(range) => Scope::AllBitField(Range { start: range.start, end: range.end }),
            Scope::ExtensibleSequence { name, bit_pos, opt_bit_field, calls_until_ext_bitfield, number_of_ext_fields } =>
                Scope::ExtensibleSequence {
                    name: *name, bit_pos: *bit_pos,
                    opt_bit_field: match opt_bit_field { Some(range) => Some(Range { start: range.start, end: range.end }), None => None },
                    calls_until_ext_bitfield: *calls_until_ext_bitfield, number_of_ext_fields: *number_of_ext_fields },
            Scope::ExtensibleSequenceEmpty(name) => Scope::ExtensibleSequenceEmpty(*name),
        }
    }
}

pub open spec fn scope_exhausted(s: Scope) -> bool {
    match s {
        Scope::OptBitField(range) => range.start == range.end,
        Scope::AllBitField(range) => range.start == range.end,
        Scope::ExtensibleSequence { name, bit_pos, opt_bit_field, calls_until_ext_bitfield, number_of_ext_fields } =>
            (match opt_bit_field { Some(range) => range.start == range.end, None => true }),
        Scope::ExtensibleSequenceEmpty(_) => true,
    }
}

pub open spec fn scope_open_type(s: Option<Scope>) -> bool {
    s matches Some(x) && (x is AllBitField || x is ExtensibleSequenceEmpty)
}
