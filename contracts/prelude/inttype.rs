// ===== C15 vocabulary =====
pub struct VerifModelRust;

pub assume_specification [i64::abs] (v: i64) -> (r: i64)
    requires v != i64::MIN
    ensures r == (if v < 0 { -v } else { v as int });

/// v is permitted by the INTEGER constraint (min..max), absent bound = MIN / MAX
pub open spec fn permitted(min: Option<i64>, max: Option<i64>, v: int) -> bool {
    (min matches Some(lo) ==> lo <= v) && (max matches Some(hi) ==> v <= hi)
}

/// the Rust integer type can represent v
pub open spec fn holds(t: RustType, v: int) -> bool {
    match t {
        RustType::U8(_) => 0 <= v <= u8::MAX,
        RustType::U16(_) => 0 <= v <= u16::MAX,
        RustType::U32(_) => 0 <= v <= u32::MAX,
        RustType::U64(_) => 0 <= v <= u64::MAX,
        RustType::I8(_) => i8::MIN <= v <= i8::MAX,
        RustType::I16(_) => i16::MIN <= v <= i16::MAX,
        RustType::I32(_) => i32::MIN <= v <= i32::MAX,
        RustType::I64(_) => i64::MIN <= v <= i64::MAX,
        _ => false,
    }
}

pub open spec fn int_bits(t: RustType) -> int {
    match t {
        RustType::U8(_) | RustType::I8(_) => 8,
        RustType::U16(_) | RustType::I16(_) => 16,
        RustType::U32(_) | RustType::I32(_) => 32,
        RustType::U64(_) | RustType::I64(_) => 64,
        _ => 0,
    }
}
pub open spec fn int_signed(t: RustType) -> bool { t is I8 || t is I16 || t is I32 || t is I64 }

/// both bounds fit a type of `bits` bits of the given signedness
pub open spec fn bounds_fit(lo: int, hi: int, bits: int, signed: bool) -> bool {
    if signed { -pow2i((bits - 1) as nat) <= lo && hi <= pow2i((bits - 1) as nat) - 1 } else { 0 <= lo && hi <= pow2i(bits as nat) - 1 }
}
pub open spec fn pow2i(k: nat) -> int decreases k { if k == 0 { 1 } else { 2 * pow2i((k - 1) as nat) } }

/// the Range stored in the type is the declared one, without truncation
pub open spec fn stored_range(t: RustType, lo: int, hi: int) -> bool {
    match t {
        RustType::U8(r) => r.0 == lo && r.1 == hi && !r.2,
        RustType::U16(r) => r.0 == lo && r.1 == hi && !r.2,
        RustType::U32(r) => r.0 == lo && r.1 == hi && !r.2,
        RustType::I8(r) => r.0 == lo && r.1 == hi && !r.2,
        RustType::I16(r) => r.0 == lo && r.1 == hi && !r.2,
        RustType::I32(r) => r.0 == lo && r.1 == hi && !r.2,
        RustType::I64(r) => r.0 == lo && r.1 == hi && !r.2,
        RustType::U64(r) => (r.0 matches Some(a) ==> a == lo) && (r.1 matches Some(b) ==> b == hi) && !r.2
            && (r.0 is None ==> lo == 0) && (r.1 is None ==> hi == i64::MAX),
        _ => false,
    }
}

/// extensible INTEGER: the Range stored in the 64-bit type is the declared root range (an absent upper bound is the type's maximum), marked extensible
pub open spec fn stored_range_ext(t: RustType, min: Option<i64>, max: Option<i64>) -> bool {
    let hi: int = match max { Some(x) => x as int, None => i64::MAX as int };
    match t {
        RustType::I64(r) => (min matches Some(m) ==> r.0 == m) && r.1 == hi && r.2,
        RustType::U64(r) => r.2
            && (r.0 matches Some(a) ==> (min matches Some(m) && a as int == m as int))
            && (r.1 matches Some(b) ==> (max matches Some(m) && b as int == m as int))
            && (r.0 is None ==> (min matches Some(m) ==> m == 0)) && (r.1 is None ==> hi == i64::MAX),
        _ => false,
    }
}

pub proof fn lemma_pow2i_values()
    ensures pow2i(7) == 128, pow2i(8) == 256, pow2i(15) == 32768, pow2i(16) == 65536, pow2i(31) == 0x8000_0000, pow2i(32) == 0x1_0000_0000,
{
    assert(pow2i(7) == 128) by(compute);
    assert(pow2i(8) == 256) by(compute);
    assert(pow2i(15) == 32768) by(compute);
    assert(pow2i(16) == 65536) by(compute);
    assert(pow2i(31) == 0x8000_0000) by(compute);
    assert(pow2i(32) == 0x1_0000_0000) by(compute);
}
