impl Default for UperWriter {
    fn default() -> (r: Self)
        ensures r.bits.buffer@.len() == 0, r.bits.write_position == 0, r.bits.read_position == 0, r.scope is None
    {
        UperWriter { bits: BitBuffer::default(), scope: None }
    }
}

impl UperWriter {
    /// representation invariant of the writer
    pub open spec fn wf(&self) -> bool { self.bits.wf() && self.bits.tight() }

    /// a fresh sub-writer as `with_buffer` creates it for an open type
    pub open spec fn fresh(&self) -> bool {
        self.bits.buffer@.len() == 0 && self.bits.write_position == 0 && self.scope is None
    }
}

/// one presence-protocol step of the writer (UperWriter::write_bit_field_entry)
pub open spec fn field_entry_pre(w: UperWriter, is_opt: bool) -> bool {
    w.bits.wf() && (w.scope matches Some(s) ==> scope_write_pre(s, w.bits, is_opt))
}
pub open spec fn field_entry_step(w0: UperWriter, is_opt: bool, is_present: bool, w1: UperWriter, r: Result<(), Error>) -> bool {
    match w0.scope {
        Some(s0) => w1.scope matches Some(s1) && scope_write_step(s0, w0.bits, is_opt, is_present, s1, w1.bits, r),
        None => w1.scope is None && r is Ok &&
            if is_opt {
                appended(w0.bits.buffer@, w0.bits.write_position as int, w1.bits.buffer@, w1.bits.write_position as int, seq![is_present])
                && w1.bits.buffer@.len() == max_int(w0.bits.buffer@.len() as int, (w0.bits.write_position + 1 + 7) / 8)
            } else { w1.bits == w0.bits },
    }
}

/// pre-condition of encoding one value: well-formed writer and an admissible protocol step
pub open spec fn wvalue_pre(w: UperWriter, is_opt: bool) -> bool {
    w.wf() && field_entry_pre(w, is_opt)
}

/// a scope as `write_sequence` builds it for the root of a SEQUENCE / SET: the preamble it refers to has been written
pub open spec fn wscope_fresh(s: Scope, b: BitBuffer) -> bool {
    match s {
        Scope::OptBitField(range) => range.start <= range.end && range.end <= b.write_position,
        Scope::ExtensibleSequence { name, bit_pos, opt_bit_field, calls_until_ext_bitfield, number_of_ext_fields } =>
            calls_until_ext_bitfield > 0 && number_of_ext_fields <= HALF()
            && (opt_bit_field matches Some(range) && bit_pos < range.start && range.start <= range.end && range.end <= b.write_position),
        _ => false,
    }
}
