impl Default for UperWriter {
    fn default() -> (r: Self)
        ensures r.bits.buffer@.len() == 0, r.bits.write_position == 0, r.bits.read_position == 0, r.scope is None
    {
        UperWriter { bits: BitBuffer::default(), scope: None }
    }
}

impl UperWriter {
    /// representation invariant of the writer
    pub open spec fn wf(&self) -> bool { self.bits.wf() && self.bits.tight() }

    /// a fresh sub-writer as `with_buffer` creates it for an open type
    pub open spec fn fresh(&self) -> bool {
        self.bits.buffer@.len() == 0 && self.bits.write_position == 0 && self.scope is None
    }
}

/// one presence-protocol step of the writer (UperWriter::write_bit_field_entry)
pub open spec fn field_entry_pre(w: UperWriter, is_opt: bool) -> bool {
    w.bits.wf() && (w.scope matches Some(s) ==> scope_write_pre(s, w.bits, is_opt))
}
pub open spec fn field_entry_step(w0: UperWriter, is_opt: bool, is_present: bool, w1: UperWriter, r: Result<(), Error>) -> bool {
    match w0.scope {
        Some(s0) => w1.scope matches Some(s1) && scope_write_step(s0, w0.bits, is_opt, is_present, s1, w1.bits, r),
        None => w1.scope is None && r is Ok &&
            if is_opt {
                appended(w0.bits.buffer@, w0.bits.write_position as int, w1.bits.buffer@, w1.bits.write_position as int, seq![is_present])
                && w1.bits.buffer@.len() == max_int(w0.bits.buffer@.len() as int, (w0.bits.write_position + 1 + 7) / 8)
            } else { w1.bits == w0.bits },
    }
}

/// pre-condition of encoding one value: well-formed writer and an admissible protocol step
pub open spec fn wvalue_pre(w: UperWriter, is_opt: bool) -> bool {
    w.wf() && field_entry_pre(w, is_opt)
}

/// a scope as `write_sequence` builds it for the root of a SEQUENCE / SET: the preamble it refers to has been written
pub open spec fn wscope_fresh(s: Scope, b: BitBuffer) -> bool {
    match s {
        Scope::OptBitField(range) => range.start <= range.end && range.end <= b.write_position,
        Scope::ExtensibleSequence { name, bit_pos, opt_bit_field, calls_until_ext_bitfield, number_of_ext_fields } =>
            calls_until_ext_bitfield > 0 && number_of_ext_fields <= HALF()
            && (opt_bit_field matches Some(range) && bit_pos < range.start && range.start <= range.end && range.end <= b.write_position),
        _ => false,
    }
}

/// the root scope `write_sequence` builds for a SEQUENCE / SET described by the constants of its Constraint,
/// with the preamble starting at bit `pos0` (extension bit first, if the type has a marker)
pub open spec fn wscope_built(s: Option<Scope>, std_opt: u64, field_count: u64, ext_after: Option<u64>, name: &'static str, pos0: int) -> bool {
    match ext_after {
        Some(e) => s == Some(Scope::ExtensibleSequence { name, bit_pos: pos0 as usize,
                        opt_bit_field: Some(Range { start: (pos0 + 1) as usize, end: (pos0 + 1 + std_opt) as usize }),
                        calls_until_ext_bitfield: (e + 1) as usize, number_of_ext_fields: (field_count - (e + 1)) as usize }),
        None => s == Some(Scope::OptBitField(Range { start: pos0 as usize, end: (pos0 + std_opt) as usize })),
    }
}

/// state in which the generated write_seq is entered: the scope above, the cursor directly behind the preamble,
/// every preamble bit (extension bit and presence bits) initialised with 0
pub open spec fn wseq_entry(w: UperWriter, std_opt: u64, field_count: u64, ext_after: Option<u64>, name: &'static str) -> bool {
    w.wf() && exists|pos0: int| 0 <= pos0 && #[trigger] wscope_built(w.scope, std_opt, field_count, ext_after, name, pos0)
        && w.bits.write_position == pos0 + (if ext_after is Some { 1int } else { 0int }) + std_opt
        && all_zero(w.bits.buffer@, pos0, w.bits.write_position as int)
}

/// the bits [lo, hi) are 0
#[verifier::opaque]
pub open spec fn all_zero(b: Seq<u8>, lo: int, hi: int) -> bool {
    forall|j: int| lo <= j < hi ==> !#[trigger] bit_at(b, j)
}
pub proof fn lemma_all_zero_empty(b: Seq<u8>, lo: int)
    ensures all_zero(b, lo, lo)
{ reveal(all_zero); }
pub proof fn lemma_all_zero_step(b0: Seq<u8>, b1: Seq<u8>, lo: int, p: int)
    requires all_zero(b0, lo, p), wrote_bit(b0, b1, p, false), 0 <= lo <= p, p < b1.len() * 8
    ensures all_zero(b1, lo, p + 1)
{
    reveal(all_zero);
    assert forall|j: int| lo <= j < p + 1 implies !#[trigger] bit_at(b1, j) by {
        if j < p { assert(!bit_at(b0, j)); }
    }
}

// ===== the presence protocol as the GLUE sees it (one step per component, positions abstracted) =====

/// positions the scope refers to lie inside what has been written
pub open spec fn wscope_pos_ok(s: Scope, wp: int) -> bool {
    match s {
        Scope::OptBitField(range) => range.start <= range.end && range.end <= wp,
        Scope::AllBitField(range) => range.start <= range.end && range.end <= wp,
        Scope::ExtensibleSequence { name, bit_pos, opt_bit_field, calls_until_ext_bitfield, number_of_ext_fields } =>
            bit_pos < wp && number_of_ext_fields <= HALF() && (opt_bit_field matches Some(range) ==> range.start <= range.end && range.end <= wp),
        Scope::ExtensibleSequenceEmpty(_) => true,
    }
}

/// one successful writer step of the protocol for a component with or without presence bit (is_opt):
/// scope before / after and the write position before / after
pub open spec fn wstep_abs(s0: Scope, wp0: int, is_opt: bool, s1: Scope, wp1: int) -> bool {
    wp1 >= wp0 && match s0 {
        Scope::OptBitField(range) => s1 == Scope::OptBitField(Range { start: (range.start + (if is_opt { 1int } else { 0int })) as usize, end: range.end }),
        Scope::AllBitField(range) => s1 == Scope::AllBitField(Range { start: (range.start + 1) as usize, end: range.end }),
        Scope::ExtensibleSequence { name, bit_pos, opt_bit_field, calls_until_ext_bitfield, number_of_ext_fields } =>
            if calls_until_ext_bitfield == 0 {
                // first extension addition: absent => nothing follows; present => header + bitmap of all additions were written
                s1 == Scope::ExtensibleSequenceEmpty(name)
                || (s1 matches Scope::AllBitField(r1) && r1.start <= r1.end && r1.end - r1.start == number_of_ext_fields - 1 && r1.end <= wp1)
            } else {
                s1 == (Scope::ExtensibleSequence { name, bit_pos,
                    opt_bit_field: (match opt_bit_field { Some(range) if is_opt => Some(Range { start: (range.start + 1) as usize, end: range.end }), _ => opt_bit_field }),
                    calls_until_ext_bitfield: (calls_until_ext_bitfield - 1) as usize, number_of_ext_fields })
            },
        Scope::ExtensibleSequenceEmpty(_) => s1 == s0,
    }
}

/// the functional step contract of Scope::write_into_field implies the abstract step
pub proof fn lemma_wstep_abs(s0: Scope, b0: BitBuffer, is_opt: bool, is_present: bool, s1: Scope, b1: BitBuffer, r: Result<(), Error>)
    requires scope_write_step(s0, b0, is_opt, is_present, s1, b1, r), r is Ok, scope_write_pre(s0, b0, is_opt), b0.wf()
    ensures wstep_abs(s0, b0.write_position as int, is_opt, s1, b1.write_position as int)
{
    match s0 {
        Scope::ExtensibleSequence { name, bit_pos, opt_bit_field, calls_until_ext_bitfield, number_of_ext_fields } => {
            if calls_until_ext_bitfield == 0 && is_present {
                let l = x691_nsnnwn((number_of_ext_fields - 1) as u64).len() as int;
                assert(b1.write_position == b0.write_position + l + number_of_ext_fields);
            }
        }
        _ => {}
    }
}
