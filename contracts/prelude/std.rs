// ===== specifications of std functions the extracted code calls (trusted, see DESIGN.md section 10) =====

// ENV-2: usize is 64 bit
global size_of usize == 8;

pub assume_specification<T> [core::mem::replace::<T>] (dest: &mut T, src: T) -> (r: T)
    ensures *final(dest) == src, r == *old(dest);

pub open spec fn HALF() -> int { 0x7fff_ffff_ffff_ffff }

pub open spec fn max_int(a: int, b: int) -> int { if a >= b { a } else { b } }
pub open spec fn min_int(a: int, b: int) -> int { if a <= b { a } else { b } }

/// R2 wrapper: `V.extend(core::iter::repeat(Z).take(N))`.  ENV-1: returning normally implies the
/// allocation succeeded, hence the new length is within the address space.
#[verifier::external_body]
pub fn verif_vec_extend_repeat(v: &mut Vec<u8>, z: u8, n: usize)
    ensures final(v)@ == old(v)@ + Seq::new(n as nat, |i: int| z), env_slice(final(v)@)
{
    v.extend(core::iter::repeat(z).take(n))
}

pub assume_specification<T, E> [Option::<Result<T, E>>::transpose] (o: Option<Result<T, E>>) -> (r: Result<Option<T>, E>)
    ensures r == (match o { Some(Ok(x)) => Ok::<Option<T>, E>(Some(x)), Some(Err(e)) => Err::<Option<T>, E>(e), None => Ok::<Option<T>, E>(None) });
