impl<B: ScopedBitRead> UperReader<B> {
    /// representation invariant of the reader: cursor inside the visible input
    pub open spec fn wf(&self) -> bool { r_wf_c(self.bits.r_bytes(), self.bits.r_pos(), self.bits.r_limit()) }
    /// same input bytes and same visible end
    pub open spec fn same_input(&self, other: &Self) -> bool {
        self.bits.r_bytes() == other.bits.r_bytes() && self.bits.r_limit() == other.bits.r_limit()
    }
}

/// one presence-protocol step of the reader (UperReader::read_bit_field_entry)
pub open spec fn rfield_entry_pre<B: ScopedBitRead>(r: UperReader<B>, is_opt: bool) -> bool {
    r.wf() && (r.scope matches Some(s) ==> (match s {
        Scope::ExtensibleSequence { name, bit_pos, opt_bit_field, calls_until_ext_bitfield, number_of_ext_fields } => number_of_ext_fields <= HALF()
            && (calls_until_ext_bitfield > 0 && is_opt ==> (opt_bit_field matches Some(range) ==> range.start < range.end)),
        _ => true,
    }))
}
pub open spec fn rfield_entry_step<B: ScopedBitRead>(r0: UperReader<B>, is_opt: bool, r1: UperReader<B>, res: Result<Option<bool>, Error>) -> bool {
    match r0.scope {
        Some(s0) => r1.scope matches Some(s1) && scope_read_step(s0, r0.bits.r_bytes(), r0.bits.r_pos(), r0.bits.r_limit(), is_opt, s1, r1.bits.r_pos(), res),
        None => r1.scope is None &&
            if is_opt {
                if r0.bits.r_pos() < r0.bits.r_limit() { res matches Ok(Some(b)) && b == bit_at(r0.bits.r_bytes(), r0.bits.r_pos()) && r1.bits.r_pos() == r0.bits.r_pos() + 1 }
                else { res is Err && r1.bits.r_pos() == r0.bits.r_pos() }
            } else { res matches Ok(None) && r1.bits.r_pos() == r0.bits.r_pos() },
    }
}

/// a scope as `read_sequence` builds it for the root of a SEQUENCE / SET (before any component was read)
pub open spec fn rscope_fresh(s: Scope) -> bool {
    match s {
        Scope::OptBitField(range) => true,
        Scope::ExtensibleSequence { name, bit_pos, opt_bit_field, calls_until_ext_bitfield, number_of_ext_fields } => number_of_ext_fields <= HALF() && opt_bit_field is Some,
        _ => false,
    }
}

/// pre-condition of decoding one value: the protocol step is admissible and an OPTIONAL / DEFAULT component inside the root part
/// of an extensible SEQUENCE finds the preamble range that `read_sequence` always installs (`read_opt` unwraps the presence flag)
pub open spec fn rvalue_pre<B: ScopedBitRead>(r: UperReader<B>, is_opt: bool) -> bool {
    rfield_entry_pre(r, is_opt) && (is_opt ==> (r.scope matches Some(s) ==> (match s {
        Scope::ExtensibleSequence { name, bit_pos, opt_bit_field, calls_until_ext_bitfield, number_of_ext_fields } => calls_until_ext_bitfield > 0 ==> opt_bit_field is Some,
        _ => true,
    })))
}

/// the root scope `read_sequence` builds from the constants of the Constraint and the extension bit found at `pos0`
pub open spec fn rscope_built(s: Option<Scope>, std_opt: u64, field_count: u64, ext_after: Option<u64>, name: &'static str, pos0: int, ext_present: bool) -> bool {
    match ext_after {
        Some(e) => if ext_present {
                s == Some(Scope::ExtensibleSequence { name, bit_pos: pos0 as usize,
                        opt_bit_field: Some(Range { start: (pos0 + 1) as usize, end: (pos0 + 1 + std_opt) as usize }),
                        calls_until_ext_bitfield: (e + 1) as usize, number_of_ext_fields: (field_count - (e + 1)) as usize })
            } else { s == Some(Scope::OptBitField(Range { start: (pos0 + 1) as usize, end: (pos0 + 1 + std_opt) as usize })) },
        None => !ext_present && s == Some(Scope::OptBitField(Range { start: pos0 as usize, end: (pos0 + std_opt) as usize })),
    }
}

/// state in which the generated read_seq is entered: the scope above, the cursor directly behind the preamble,
/// the extension bit (if the type has a marker) as found in the input
pub open spec fn rseq_entry<B: ScopedBitRead>(r: UperReader<B>, std_opt: u64, field_count: u64, ext_after: Option<u64>, name: &'static str) -> bool {
    r.wf() && exists|pos0: int, ext_present: bool| 0 <= pos0 && #[trigger] rscope_built(r.scope, std_opt, field_count, ext_after, name, pos0, ext_present)
        && r.bits.r_pos() == pos0 + (if ext_after is Some { 1int } else { 0int }) + std_opt
        && (ext_after is Some ==> ext_present == bit_at(r.bits.r_bytes(), pos0))
}

/// presence bits of extension additions are still to be consumed (skip_unknown_extension_additions)
pub open spec fn rskip_pending(s: Option<Scope>) -> bool {
    match s {
        Some(Scope::ExtensibleSequence { name, bit_pos, opt_bit_field, calls_until_ext_bitfield, number_of_ext_fields }) => calls_until_ext_bitfield == 0,
        Some(Scope::AllBitField(range)) => range.start < range.end,
        _ => false,
    }
}
/// termination measure of the skip loop
pub open spec fn rskip_measure(s: Option<Scope>) -> int {
    match s {
        Some(Scope::ExtensibleSequence { name, bit_pos, opt_bit_field, calls_until_ext_bitfield, number_of_ext_fields }) => if calls_until_ext_bitfield == 0 { 0x1_0000_0000_0000_0001int } else { 0 },
        Some(Scope::AllBitField(range)) => if range.start < range.end { range.end - range.start } else { 0 },
        _ => 0,
    }
}

/// what the generated read_seq leaves behind on success, given the scope s0 it started from: a non-extensible SEQUENCE has
/// consumed its whole preamble; an extensible one has consumed the root part of the preamble -- presence bits of additions the
/// reader does not know may remain in the bitmap (they are consumed by skip_unknown_extension_additions)
pub open spec fn rglue_post(s0: Scope, s1: Scope) -> bool {
    match s0 {
        Scope::OptBitField(_) => scope_exhausted(s1),
        _ => match s1 {
            Scope::OptBitField(range) => range.start == range.end,
            Scope::ExtensibleSequence { name, bit_pos, opt_bit_field, calls_until_ext_bitfield, number_of_ext_fields } =>
                number_of_ext_fields <= HALF() && (opt_bit_field matches Some(range) ==> range.start == range.end),
            Scope::AllBitField(range) => range.start <= range.end,
            _ => true,
        },
    }
}

/// where the reader stands after consuming the presence bits [start, end) of a bitmap and skipping one open type
/// (general length in octets, clamped to the visible end) for each bit that is set; None = the input is rejected
pub open spec fn dec_skip(bytes: Seq<u8>, start: int, end: int, pos: int, limit: int) -> Option<int>
    decreases end - start
{
    if start >= end { Some(pos) }
    else if start >= limit { None }
    else if !bit_at(bytes, start) { dec_skip(bytes, start + 1, end, pos, limit) }
    else { match dec_len_general(bytes, pos, limit) {
        None => None,
        Some((n, p1)) => dec_skip(bytes, start + 1, end, if p1 + 8 * n < limit { p1 + 8 * n } else { limit }, limit),
    } }
}

// ===== the presence protocol as the generated READ glue sees it (one step per component, positions abstracted) =====

/// one successful reader step of the protocol for a component with or without presence bit (is_opt)
pub open spec fn rstep_abs(s0: Scope, is_opt: bool, s1: Scope) -> bool {
    match s0 {
        Scope::OptBitField(range) => if range.start < range.end && is_opt { s1 == Scope::OptBitField(Range { start: (range.start + 1) as usize, end: range.end }) } else { s1 == s0 },
        Scope::AllBitField(range) => if range.start < range.end { s1 == Scope::AllBitField(Range { start: (range.start + 1) as usize, end: range.end }) } else { s1 == s0 },
        Scope::ExtensibleSequence { name, bit_pos, opt_bit_field, calls_until_ext_bitfield, number_of_ext_fields } =>
            if calls_until_ext_bitfield == 0 {
                // first extension addition: no addition transmitted, or the transmitted bitmap (whatever its size) minus its first bit
                // (or nothing happened: read_sequence ignores a failed step of its own entry -- `let _ = self.read_bit_field_entry(false);` --
                // which can only fail here, before the extension header could be read, and leaves the scope as it was)
                s1 == Scope::ExtensibleSequenceEmpty(name) || (s1 matches Scope::AllBitField(r1) && r1.start <= r1.end) || s1 == s0
            } else {
                s1 == (Scope::ExtensibleSequence { name, bit_pos,
                    opt_bit_field: (match opt_bit_field { Some(range) if is_opt => Some(Range { start: (range.start + 1) as usize, end: range.end }), _ => opt_bit_field }),
                    calls_until_ext_bitfield: (calls_until_ext_bitfield - 1) as usize, number_of_ext_fields })
            },
        Scope::ExtensibleSequenceEmpty(_) => s1 == s0,
    }
}

/// the functional step contract of Scope::read_from_field implies the abstract step
pub proof fn lemma_rstep_abs(s0: Scope, bytes: Seq<u8>, pos0: int, limit: int, is_opt: bool, s1: Scope, pos1: int, r: Result<Option<bool>, Error>)
    requires scope_read_step(s0, bytes, pos0, limit, is_opt, s1, pos1, r), r is Ok, 0 <= pos0 <= limit,
        s0 matches Scope::ExtensibleSequence { name, bit_pos, opt_bit_field, calls_until_ext_bitfield, number_of_ext_fields } ==> (calls_until_ext_bitfield > 0 && is_opt ==> (opt_bit_field matches Some(range) ==> range.start < range.end)),
    ensures rstep_abs(s0, is_opt, s1)
{
}
