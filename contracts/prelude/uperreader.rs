impl<B: ScopedBitRead> UperReader<B> {
    /// representation invariant of the reader: cursor inside the visible input
    pub open spec fn wf(&self) -> bool { r_wf_c(self.bits.r_bytes(), self.bits.r_pos(), self.bits.r_limit()) }
    /// same input bytes and same visible end
    pub open spec fn same_input(&self, other: &Self) -> bool {
        self.bits.r_bytes() == other.bits.r_bytes() && self.bits.r_limit() == other.bits.r_limit()
    }
}

/// one presence-protocol step of the reader (UperReader::read_bit_field_entry)
pub open spec fn rfield_entry_pre<B: ScopedBitRead>(r: UperReader<B>, is_opt: bool) -> bool {
    r.wf() && (r.scope matches Some(s) ==> (match s {
        Scope::ExtensibleSequence { name, bit_pos, opt_bit_field, calls_until_ext_bitfield, number_of_ext_fields } => number_of_ext_fields <= HALF()
            && (calls_until_ext_bitfield > 0 && is_opt ==> (opt_bit_field matches Some(range) ==> range.start < range.end)),
        _ => true,
    }))
}
pub open spec fn rfield_entry_step<B: ScopedBitRead>(r0: UperReader<B>, is_opt: bool, r1: UperReader<B>, res: Result<Option<bool>, Error>) -> bool {
    match r0.scope {
        Some(s0) => r1.scope matches Some(s1) && scope_read_step(s0, r0.bits.r_bytes(), r0.bits.r_pos(), r0.bits.r_limit(), is_opt, s1, r1.bits.r_pos(), res),
        None => r1.scope is None &&
            if is_opt {
                if r0.bits.r_pos() < r0.bits.r_limit() { res matches Ok(Some(b)) && b == bit_at(r0.bits.r_bytes(), r0.bits.r_pos()) && r1.bits.r_pos() == r0.bits.r_pos() + 1 }
                else { res is Err && r1.bits.r_pos() == r0.bits.r_pos() }
            } else { res matches Ok(None) && r1.bits.r_pos() == r0.bits.r_pos() },
    }
}

/// a scope as `read_sequence` builds it for the root of a SEQUENCE / SET (before any component was read)
pub open spec fn rscope_fresh(s: Scope) -> bool {
    match s {
        Scope::OptBitField(range) => true,
        Scope::ExtensibleSequence { name, bit_pos, opt_bit_field, calls_until_ext_bitfield, number_of_ext_fields } => number_of_ext_fields <= HALF() && opt_bit_field is Some,
        _ => false,
    }
}

/// pre-condition of decoding one value: the protocol step is admissible and an OPTIONAL / DEFAULT component inside the root part
/// of an extensible SEQUENCE finds the preamble range that `read_sequence` always installs (`read_opt` unwraps the presence flag)
pub open spec fn rvalue_pre<B: ScopedBitRead>(r: UperReader<B>, is_opt: bool) -> bool {
    rfield_entry_pre(r, is_opt) && (is_opt ==> (r.scope matches Some(s) ==> (match s {
        Scope::ExtensibleSequence { name, bit_pos, opt_bit_field, calls_until_ext_bitfield, number_of_ext_fields } => calls_until_ext_bitfield > 0 ==> opt_bit_field is Some,
        _ => true,
    })))
}
